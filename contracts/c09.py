"""C09 - rule references resolve the same way whatever the document order (collection.py, correlations.py)."""
from __future__ import annotations
import itertools, z3
from pyvc.api import *
from pyvc.values import *
from pyvc import ops


def mk_rules(I, shape):
    """shape: list of (name, kind 'R'|'C', [referenced names]) in document order -> (objects by name, document-ordered list)"""
    idx = I.E.index
    R, C = idx.lookup("sigma.rule.rule:SigmaRule"), idx.lookup("sigma.correlations:SigmaCorrelationRule")
    objs = {}
    for name, kind, refs in shape:
        o = SObj(R if kind == "R" else C, {"_backreferences": [], "_output": True}, lazy=True)
        o.ghost["name"] = name
        objs[name] = o
    for name, kind, refs in shape:
        if kind == "C":
            objs[name].fields["referenced_rules"] = [SObj("RuleReference", {"rule": objs[r]}) for r in refs]
    return objs, [objs[n] for n, _, _ in shape]


GRAPHS = {
    "chain": [("a", "R", []), ("b", "R", []), ("c1", "C", ["a", "b"]), ("c2", "C", ["c1"]), ("u", "R", [])],
    "diamond": [("a", "R", []), ("c1", "C", ["a"]), ("c2", "C", ["a"]), ("c3", "C", ["c1", "c2"])],
    "unrelated": [("u1", "R", []), ("u2", "R", []), ("u3", "R", [])],
}


def perm_cases():
    out = []
    for g, shape in GRAPHS.items():
        perms = list(itertools.permutations(range(len(shape))))
        for p in (perms if len(perms) <= 24 else perms[::5]):
            out.append((g, p))
    return tuple(out)


@register
class ResolveRuleReferences(Contract):
    """after resolve_rule_references, every rule comes after all rules it refers to (directly or through other correlation rules), the
    rules are a permutation of the input, and rules unrelated by references keep their document order - for every document order"""
    id = "C09.SigmaCollection.resolve_rule_references"
    target = "sigma.collection:SigmaCollection.resolve_rule_references"
    props = ("C09", "C10")
    cases = perm_cases()
    assumed = ["SigmaCorrelationRule.resolve_rule_references (own contract) and filter application are abstract here", "reference graphs: chain of depth 3, diamond, unrelated rules; all (or every fifth) document orders - unrolled"]

    def setup(self, E):
        E.summaries["sigma.correlations:SigmaCorrelationRule.resolve_rule_references"] = lambda I, so, a, k: None

    def args(self, I, case):
        g, perm = case
        shape = [GRAPHS[g][i] for i in perm]
        objs, docs = mk_rules(I, shape)
        me = SObj(I.E.index.lookup("sigma.collection:SigmaCollection"), {"rules": list(docs)}, lazy=True)
        return {"self": me, "args": [], "objs": objs, "docs": docs, "shape": shape}

    def post(self, I, inp, r):
        c = I.ctx
        rules = inp["self"].fields["rules"]
        ok = isinstance(rules, list) and len(rules) == len(inp["docs"]) and {id(x) for x in rules} == {id(x) for x in inp["docs"]}
        c.require(ok, "the rules are a permutation of the loaded rules")
        if not ok:
            return
        pos = {id(x): i for i, x in enumerate(rules)}
        for name, kind, refs in inp["shape"]:
            for ref in refs:
                c.require(pos[id(inp["objs"][ref])] < pos[id(inp["objs"][name])], f"{ref} is ordered before {name}, which refers to it")

    def frame_ok(self, I, inp, obj, name):
        return obj is inp["self"] and name == "rules"


@register
class CorrelationResolveReferences(Contract):
    """each referenced rule gets the back-reference; its own output is disabled iff this correlation rule does not ask for generation -
    never re-enabled (so the result does not depend on the order in which several correlation rules are resolved)"""
    id = "C09.SigmaCorrelationRule.resolve_rule_references"
    target = "sigma.correlations:SigmaCorrelationRule.resolve_rule_references"
    props = ("C09", "C10")
    cases = tuple((gen, pre, route) for gen in (True, False) for pre in (True, False) for route in ("rules list", "extended condition only"))

    def setup(self, E):
        E._c09_ref = {}
        E.summaries["sigma.correlations:SigmaExtendedCorrelationCondition.get_referenced_rules"] = lambda I, so, a, k: ["named_in_condition"]

        def hook(I, cinfo, args, kwargs):
            from pyvc.interp import UNBOUND
            if cinfo.name == "SigmaRuleReference":
                E._c09_ref["made_for"] = list(args)
                return E._c09_ref["ref"]
            return UNBOUND
        E.instantiate_hook = hook

    def args(self, I, case):
        gen, pre_output, route = case
        idx = I.E.index
        target = SObj(idx.lookup("sigma.rule.rule:SigmaRule"), {"_backreferences": [], "_output": pre_output}, lazy=True)
        coll = I.fresh("collection", "opaque", "Collection")
        resolved = []
        ref = SObj("RuleReference", {"resolve": NativeFn("resolve", lambda I2, a, k: resolved.append(a[0])), "rule": target})
        I.E._c09_ref.clear()
        I.E._c09_ref["ref"] = ref
        cond = SObj(idx.lookup("sigma.correlations:SigmaExtendedCorrelationCondition"), {}, lazy=True) if route != "rules list" else None
        me = SObj(idx.lookup("sigma.correlations:SigmaCorrelationRule"), {"rules": [ref] if route == "rules list" else None, "generate": gen, "condition": cond}, lazy=True)
        return {"self": me, "args": [coll], "target": target, "ref": ref, "coll": coll, "resolved": resolved, "case": case}

    def post(self, I, inp, r):
        gen, pre, route = inp["case"]
        c, t, me = I.ctx, inp["target"], inp["self"]
        c.require(inp["resolved"] == [inp["coll"]], "every reference is resolved against the collection")
        if route != "rules list":
            c.require(I.E._c09_ref.get("made_for") == ["named_in_condition"], "a rule without a rules list refers to the rules its extended condition names")
        c.require(me.fields.get("referenced_rules") == [inp["ref"]], "referenced_rules are the explicit rule references (or the ones named by the extended condition)")
        c.require(t.fields["_backreferences"] == [me], "the referenced rule knows the rule that refers to it")
        c.require(t.fields["_output"] is (pre and gen), "output of the referenced rule: disabled iff this rule does not generate; never re-enabled")

    def frame_ok(self, I, inp, obj, name):
        return (obj is inp["self"] and name == "referenced_rules") or (obj is inp["target"] and name in ("_output", "_backreferences"))


@register
class CollectionGetItem(Contract):
    id = "C09.SigmaCollection.__getitem__"
    target = "sigma.collection:SigmaCollection.__getitem__"
    props = ("C09", "C11")
    cases = ("int_ok", "int_bad", "uuid_ok", "uuid_bad", "str_uuid_ok", "str_uuid_bad", "str_name_ok", "str_name_bad")
    assumed = ["uuid.UUID(str): ValueError for a malformed string, else the UUID (any accepted spelling denotes the same UUID)"]

    def setup(self, E):
        from pyvc.pyval import install_yaml_externals
        install_yaml_externals(E)
        E.external_isinstance["uuid.UUID"] = lambda I, v: isinstance(v, SObj) and v.cls == "UUID"

    def args(self, I, case):
        rule = SObj("Rule", {})
        uid = SObj("UUID", {})
        key = {"int": 0, "uuid": uid, "str": I.fresh("key", "str")}[case.split("_")[0]]
        hit = case.endswith("ok")
        ids, names = {}, {}
        if hit and "uuid" in case:
            ids = {uid: rule}
        if case == "str_name_ok":
            names = {key: rule}
        # str keys that are well-formed UUIDs resolve to the UUID object `uid`
        if case.startswith("str_uuid"):
            I.E.externals["uuid.UUID"] = lambda I2, a, k: uid
        elif case.startswith("str_name"):
            def bad(I2, a, k):
                from pyvc.interp import PyRaise
                raise PyRaise(ExcValue("ValueError", ("badly formed",)))
            I.E.externals["uuid.UUID"] = bad
        me = SObj(I.E.index.lookup("sigma.collection:SigmaCollection"), {"rules": [rule] if case == "int_ok" else [], "ids_to_rules": ids, "names_to_rules": names}, lazy=True)
        return {"self": me, "args": [key], "rule": rule, "case": case}

    def post(self, I, inp, r):
        I.ctx.require(inp["case"].endswith("ok") and r is inp["rule"], "returns the rule with that position / id / name")

    def raises(self, I, inp, exc):
        I.ctx.require(exc_is(I, exc, "SigmaRuleNotFoundError") and inp["case"].endswith("bad"), f"SigmaRuleNotFoundError exactly for an unknown position / id / name (got {exc_name(exc)})", kind="SAFE")

    def frame_ok(self, I, inp, obj, name):
        return False


@register
class CollectionMerge(Contract):
    """merge(): the merged collection holds the rules and filters of every collection in order, the errors of every collection, and
    references are resolved at merge time unless the caller switches that off (a reference to a missing rule is a load-time error on the
    merge path too)"""
    id = "C09.SigmaCollection.merge"
    target = "sigma.collection:SigmaCollection.merge"
    props = ("C09",)
    cases = ("default", "off", "on")
    assumed = ["the SigmaCollection constructor is abstract here (C09.SigmaCollection.resolve_rule_references covers the resolution itself)"]

    def setup(self, E):
        E.summaries["sigma.collection:SigmaCollection"] = lambda I, so, a, k: SObj("Built", {"a": list(a), "k": dict(k)})

    def args(self, I, case):
        C = I.E.index.lookup("sigma.collection:SigmaCollection")
        mk = lambda t: SObj("R", {}, ghost={"n": t})
        cols = [SObj(C, {"rules": [mk("r0"), mk("r1")], "filters": [mk("f0")], "errors": [mk("e0")]}), SObj(C, {"rules": [], "filters": [], "errors": []}),
                SObj(C, {"rules": [mk("r2")], "filters": [], "errors": [mk("e1"), mk("e2")]})]
        args = [cols] + ([] if case == "default" else [case == "on"])
        return {"self": ClassRef(C), "args": args, "cols": cols, "case": case}

    def post(self, I, inp, r):
        c = I.ctx
        ok = isinstance(r, SObj) and r.cls == "Built" and not r.fields["a"]
        c.require(ok, "the merged collection is built by the constructor with keyword arguments")
        if ok:
            k = r.fields["k"]
            want_rules = [x for col in inp["cols"] for x in col.fields["rules"] + col.fields["filters"]]
            want_errs = [x for col in inp["cols"] for x in col.fields["errors"]]
            got = k.get("init_rules")
            c.require(isinstance(got, list) and len(got) == len(want_rules) and all(a is b for a, b in zip(got, want_rules)), "rules and filters of every collection, in order")
            ge = k.get("errors")
            c.require(isinstance(ge, list) and len(ge) == len(want_errs) and all(a is b for a, b in zip(ge, want_errs)), "errors of every collection, in order")
            c.require(ops.truth(I, k.get("resolve_references", True)) is (inp["case"] != "off"), "references are resolved at merge time unless switched off explicitly")

    def frame_ok(self, I, inp, obj, name):
        return False


@register
class CollectionIndex(Contract):
    """SigmaCollection.__post_init__: every rule - detection rule or correlation rule - is reachable by its id (if it has one) AND by its
    name (if it has one); filters are kept apart; rules keep their order"""
    id = "C09.SigmaCollection.__post_init__"
    target = "sigma.collection:SigmaCollection.__post_init__"
    props = ("C09", "C11")
    cases = ("RR", "RC", "CR", "CC", "RFC")
    assumed = ["apply_filters / resolve_rule_references are separate (both switched off here)"]

    def args(self, I, case):
        idx = I.E.index
        K = {"R": idx.lookup("sigma.rule.rule:SigmaRule"), "C": idx.lookup("sigma.correlations:SigmaCorrelationRule"), "F": idx.lookup("sigma.filters:SigmaFilter")}
        objs = []
        for i, k in enumerate(case):
            has_id, has_name = (i % 2 == 0 or k == "C"), True
            o = SObj(K[k], {"id": I.fresh(f"id{i}", "opaque", "UUID") if has_id else None, "name": I.fresh(f"name{i}", "str") if has_name else None}, lazy=True)
            o.ghost["k"] = k
            objs.append(o)
        for kind in ("id", "name"):          # distinct rules have distinct ids and names (duplicates are the business of the uniqueness validators, C19)
            vs = [o.fields[kind] for o in objs if o.fields[kind] is not None]
            for i in range(len(vs)):
                for j in range(i + 1, len(vs)):
                    I.ctx.assume(vs[i].t != vs[j].t)
        me = SObj(idx.lookup("sigma.collection:SigmaCollection"), {"rules": [], "filters": [], "errors": []}, lazy=True)
        return {"self": me, "args": [objs, True, False], "objs": objs}

    def post(self, I, inp, r):
        c, me = I.ctx, inp["self"]
        rules = [o for o in inp["objs"] if o.ghost["k"] != "F"]
        c.require(len(me.fields["rules"]) == len(rules) and all(a is b for a, b in zip(me.fields["rules"], rules)), "rules and correlation rules, in order")
        c.require([o for o in me.fields["filters"]] == [o for o in inp["objs"] if o.ghost["k"] == "F"], "filters kept apart")
        ids, names = me.fields.get("ids_to_rules"), me.fields.get("names_to_rules")
        for o in rules:
            if o.fields["id"] is not None:
                c.require(isinstance(ids, dict) and any(k is o.fields["id"] and v is o for k, v in ids.items()), f"a {'correlation ' if o.ghost['k'] == 'C' else ''}rule with an id is registered under its id")
            if o.fields["name"] is not None:
                c.require(isinstance(names, dict) and any(k is o.fields["name"] and v is o for k, v in names.items()), f"a {'correlation ' if o.ghost['k'] == 'C' else ''}rule with a name is registered under its name")

    def frame_ok(self, I, inp, obj, name):
        return obj is inp["self"]


@register
class AddBackreference(Contract):
    """add_backreference only records who refers to the rule; whether the rule emits its own query is decided by the referrer's generate
    flag (disable_output), never inherited from the referrer's own output state"""
    id = "C09.SigmaRuleBase.add_backreference"
    target = "sigma.rule.base:SigmaRuleBase.add_backreference"
    props = ("C09",)
    cases = (True, False)

    def args(self, I, case):
        idx = I.E.index
        me = SObj(idx.lookup("sigma.rule.base:SigmaRuleBase"), {"_backreferences": [], "_output": True}, lazy=True)
        other = SObj(idx.lookup("sigma.rule.base:SigmaRuleBase"), {"_backreferences": [], "_output": case}, lazy=True)
        return {"self": me, "args": [other], "other": other}

    def post(self, I, inp, r):
        me = inp["self"]
        I.ctx.require(len(me.fields["_backreferences"]) == 1 and me.fields["_backreferences"][0] is inp["other"], "the referring rule is recorded")
        I.ctx.require(me.fields["_output"] is True, "the output flag is untouched")

    def frame_ok(self, I, inp, obj, name):
        return False


@register
class CollectionFromDicts(Contract):
    """SigmaCollection.from_dicts: every document goes to the loader of ITS kind (a `correlation` key: correlation rule; a `filter` key:
    filter; otherwise a detection rule merged with the current global document), with the caller's collect_errors and source; `global`
    / `reset` / `repeat` actions as documented; an unknown action is a SigmaCollectionError (collected in collecting mode); the
    collection is built from the loaded objects IN DOCUMENT ORDER, with the errors of every document and with the caller's
    collect_filters / resolve_references"""
    id = "C09.SigmaCollection.from_dicts"
    target = "sigma.collection:SigmaCollection.from_dicts"
    props = ("C09", "C07", "C11")
    cases = tuple((seq, col) for seq in (("rule", "corr", "filter"), ("filter", "rule"), ("global", "rule", "reset", "rule"), ("rule", "repeat"), ("rule", "bogus", "corr"), (), ("global", "filter", "corr", "rule")) for col in (False, True))

    def setup(self, E):
        E._c09_trace = []

        def loader(kind):
            def f(I, so, a, k):
                o = SObj("Loaded", {"kind": kind, "doc": a[0], "errors": [SObj("Err", {"of": kind, "n": len(E._c09_trace)})]})
                E._c09_trace.append((kind, list(a), dict(k), o))
                return o
            return f
        E.summaries["sigma.rule.rule:SigmaRule.from_dict"] = loader("rule")
        E.summaries["sigma.correlations:SigmaCorrelationRule.from_dict"] = loader("corr")
        E.summaries["sigma.filters:SigmaFilter.from_dict"] = loader("filter")
        E.summaries["sigma.collection:deep_dict_update"] = lambda I, so, a, k: SObj("Merged", {"base": a[0], "update": a[1]})
        E._c09_made = []

        def hook(I, cinfo, args, kwargs):
            from pyvc.interp import UNBOUND
            if cinfo.name == "SigmaCollection":
                E._c09_made.append((list(args), dict(kwargs)))
                return SObj("NewCollection", {})
            return UNBOUND
        E.instantiate_hook = hook

    def args(self, I, case):
        seq, col = case
        del I.E._c09_trace[:]
        del I.E._c09_made[:]
        docs = []
        for i, kind in enumerate(seq):
            d = {"title": f"doc{i}"}
            if kind == "corr":
                d["correlation"] = {}
            elif kind == "filter":
                d["filter"] = {}
            elif kind in ("global", "reset", "repeat", "bogus"):
                d["action"] = kind
            docs.append(d)
        src = SObj("Location", {})
        cf, rr = I.fresh("collect_filters", "bool"), I.fresh("resolve_references", "bool")
        return {"self": ClassRef(I.E.index.lookup("sigma.collection:SigmaCollection")), "args": [docs, col, src, cf, rr], "docs": docs, "src": src, "cf": cf, "rr": rr, "case": case}

    def post(self, I, inp, r):
        seq, col = inp["case"]
        c = I.ctx
        c.require("bogus" not in seq or col, "an unknown action is an error unless errors are collected")
        tr, made = I.E._c09_trace, I.E._c09_made
        want_kinds = [k for k in seq if k in ("rule", "corr", "filter")] + ([] if "repeat" not in seq else [])
        kinds = [t[0] for t in tr]
        exp = []
        for k in seq:
            if k in ("rule", "corr", "filter"):
                exp.append(k)
            elif k == "repeat":
                exp.append("rule")
        c.require(kinds == exp, f"each document is loaded by the loader of its kind, in document order ({exp})")
        c.require(all(len(t[1]) == 3 and t[1][1] is col and t[1][2] is inp["src"] and not t[2] for t in tr), "every loader gets the caller's collect_errors and source")
        ok = len(made) == 1 and not made[0][0]
        c.require(ok, "one collection is built")
        if not ok:
            return
        k = made[0][1]
        rules = I.force(k.get("init_rules"))
        c.require(isinstance(rules, list) and len(rules) == len(tr) and all(a is t[3] for a, t in zip(rules, tr)), "the collection holds the loaded objects in document order")
        errs = I.force(k.get("errors"))
        want_errs = []
        ti = 0
        for kind in seq:
            if kind in ("rule", "corr", "filter", "repeat"):
                want_errs.append(tr[ti][3].fields["errors"][0])
                ti += 1
            elif kind == "bogus":
                want_errs.append("collection-error")
        got_ok = isinstance(errs, list) and len(errs) == len(want_errs) and all((w == "collection-error" and isinstance(e, SObj) and getattr(e.cls, "name", None) == "SigmaCollectionError") or e is w for e, w in zip(errs, want_errs))
        c.require(got_ok, "the errors of every document, in document order (an unknown action as SigmaCollectionError at its position)")
        c.require(k.get("collect_filters") is inp["cf"] and k.get("resolve_references") is inp["rr"], "collect_filters / resolve_references as given by the caller")
        # global documents: rules after `global` are merged with it, rules after `reset` are not
        if seq == ("global", "rule", "reset", "rule"):
            d1, d2 = tr[0][1][0], tr[1][1][0]
            c.require(isinstance(d1, SObj) and d1.cls == "Merged" and d1.fields["base"] is inp["docs"][1] and d1.fields["update"] is inp["docs"][0], "a rule after `global` is merged with the global document")
            c.require(isinstance(d2, SObj) and d2.cls == "Merged" and d2.fields["base"] is inp["docs"][3] and d2.fields["update"] == {}, "a rule after `reset` is merged with nothing")
        if seq == ("global", "filter", "corr", "rule"):
            c.require(tr[0][1][0] is inp["docs"][1] and tr[1][1][0] is inp["docs"][2], "filters and correlation rules are loaded from their OWN document: a global document applies to detection rules only")
            d3 = tr[2][1][0]
            c.require(isinstance(d3, SObj) and d3.cls == "Merged" and d3.fields["base"] is inp["docs"][3] and d3.fields["update"] is inp["docs"][0], "the detection rule after them is still merged with the global document")
        if seq == ("rule", "repeat"):
            d2 = tr[1][1][0]
            c.require(isinstance(d2, SObj) and d2.cls == "Merged" and d2.fields["base"] is inp["docs"][0] and d2.fields["update"] is inp["docs"][1], "`repeat` loads the previous rule document updated with this one")

    def raises(self, I, inp, exc):
        seq, col = inp["case"]
        I.ctx.require("bogus" in seq and not col and exc_is(I, exc, "SigmaCollectionError") and I.E._c09_made == [], f"SigmaCollectionError for an unknown action in strict mode only (got {exc_name(exc)})")

    def frame_ok(self, I, inp, obj, name):
        return isinstance(obj, dict) or False


@register
class LoadRuleset(Contract):
    """SigmaCollection.load_ruleset: every resolved path (replaced or skipped by on_beforeload) is loaded with filters collected and
    references NOT resolved (whether or not hooks are set - a file need not contain what it refers to); the per-file collection (replaced or
    skipped by on_load, where only None means skip - a collection holding only filters is kept) is merged in path order; references are
    resolved once, on the merged collection, iff asked for"""
    id = "C09.SigmaCollection.load_ruleset"
    target = "sigma.collection:SigmaCollection.load_ruleset"
    props = ("C09", "C11", "C07")
    cases = tuple((bl, ol, rr) for bl in ("none", "identity", "skip-first") for ol in ("none", "identity", "skip-second", "replace") for rr in (True, False))
    assumed = ["path.open is external (a file object); SigmaRuleLocation abstract; two paths"]

    def setup(self, E):
        E._c09_lr = {"loaded": [], "merged": [], "resolved": 0}
        t = E._c09_lr

        def from_yaml(I, so, a, k):
            col = SObj("FileCollection", {"n": len(t["loaded"]), "__len__": NativeFn("__len__", lambda I2, a2, k2: 0), "__bool__": NativeFn("__bool__", lambda I2, a2, k2: False)})     # a file with filters only: no rules
            t["loaded"].append((list(a), dict(k), col))
            return col
        E.summaries["sigma.collection:SigmaCollection.from_yaml"] = from_yaml

        def merge(I, so, a, k):
            t["merged"].append((list(ops.iterate(I, a[0], None)), dict(k)))
            return SObj("Merged", {"resolve_rule_references": NativeFn("rrr", lambda I2, a2, k2: t.__setitem__("resolved", t["resolved"] + 1))})
        E.summaries["sigma.collection:SigmaCollection.merge"] = merge
        E.summaries["sigma.exceptions:SigmaRuleLocation"] = lambda I, so, a, k: SObj("Location", {"path": a[0]})

    def args(self, I, case):
        bl, ol, rr = case
        t = I.E._c09_lr
        t["loaded"].clear(); t["merged"].clear(); t["resolved"] = 0

        class _Fd:
            def __init__(self, p):
                self.p = p

            def as_context(self, I2):
                outer = self

                class H:
                    value = SObj("File", {"of": outer.p})

                    def exit(self, I3, exc):
                        return False
                return H()
        paths = [SObj("Path", {"n": i}) for i in range(2)]
        for p in paths:
            p.fields["open"] = NativeFn("open", (lambda p: lambda I2, a, k: _Fd(p))(p))
        I.E.summaries["sigma.collection:SigmaCollection.resolve_paths"] = lambda I2, so, a, k: list(paths)
        repl = SObj("ReplacementCollection", {})
        before = {"none": None, "identity": NativeFn("obl", lambda I2, a, k: a[0]), "skip-first": NativeFn("obl", lambda I2, a, k: None if a[0] is paths[0] else a[0])}[bl]
        calls = []

        def on_load(I2, a, k):
            calls.append(list(a))
            if ol == "identity":
                return a[1]
            if ol == "replace":
                return repl
            return None if len(calls) == 2 else a[1]
        after = None if ol == "none" else NativeFn("ol", on_load)
        ce = I.fresh("collect_errors", "bool")
        return {"self": ClassRef(I.E.index.lookup("sigma.collection:SigmaCollection")), "args": [["dir"], ce, before, after, "**/*.yml", rr], "paths": paths, "repl": repl, "ce": ce, "calls": calls, "case": case}

    def post(self, I, inp, r):
        bl, ol, rr = inp["case"]
        c, t = I.ctx, I.E._c09_lr
        used = [p for p in inp["paths"] if not (bl == "skip-first" and p is inp["paths"][0])]
        c.require(len(t["loaded"]) == len(used), "every path that on_beforeload does not skip is loaded once")
        for (a, k, col), p in zip(t["loaded"], used):
            c.require(isinstance(a[0], SObj) and a[0].cls == "File" and a[0].fields["of"] is p and a[1] is inp["ce"], "loaded from that path's file with the caller's collect_errors")
            c.require(k.get("collect_filters") is True and k.get("resolve_references") is False and isinstance(k.get("source"), SObj) and k["source"].fields["path"] is p,
                      "per-file collections keep their filters and do NOT resolve references (also when hooks are set); the source location is the path")
        want = []
        for i, (a, k, col) in enumerate(t["loaded"]):
            if ol in ("none", "identity"):
                want.append(col)
            elif ol == "replace":
                want.append(inp["repl"])
            elif i != 1:
                want.append(col)
        ok = len(t["merged"]) == 1
        c.require(ok, "one merge")
        if ok:
            got, k = t["merged"][0]
            c.require(len(got) == len(want) and all(x is y for x, y in zip(got, want)), "the merge gets what on_load returned for every file, in path order - only None is skipped (a collection without rules, e.g. filters only, is kept)")
            c.require(k.get("resolve_references") is False, "the merge itself does not resolve")
        c.require(t["resolved"] == (1 if rr else 0), "references are resolved once on the merged collection iff asked for")

    def frame_ok(self, I, inp, obj, name):
        return False


@register
class CollectionFromYaml(Contract):
    """SigmaCollection.from_yaml: every YAML document of the stream, in order, is handed to from_dicts together with the caller's
    collect_errors, source, collect_filters and resolve_references (each in its own position)"""
    id = "C09.SigmaCollection.from_yaml"
    target = "sigma.collection:SigmaCollection.from_yaml"
    props = ("C09", "C07", "C11")

    def setup(self, E):
        E._c09_fy = []
        E.externals["yaml.safe_load_all"] = lambda I, a, k: [SObj("Doc", {"n": 0, "of": a[0]}), SObj("Doc", {"n": 1, "of": a[0]})]
        E.summaries["sigma.collection:SigmaCollection.from_dicts"] = lambda I, so, a, k: (E._c09_fy.append((list(a), dict(k))), SObj("Collection", {}))[1]

    def args(self, I):
        del I.E._c09_fy[:]
        text = I.fresh("yaml", "str")
        ce, cf, rr = I.fresh("collect_errors", "bool"), I.fresh("collect_filters", "bool"), I.fresh("resolve_references", "bool")
        src = SObj("Location", {})
        return {"self": ClassRef(I.E.index.lookup("sigma.collection:SigmaCollection")), "args": [text, ce, src, cf, rr], "text": text, "p": (ce, src, cf, rr)}

    def post(self, I, inp, r):
        calls = I.E._c09_fy
        ok = len(calls) == 1
        I.ctx.require(ok, "from_dicts once")
        if ok:
            a, k = calls[0]
            params = dict(zip(("collect_errors", "source", "collect_filters", "resolve_references"), a[1:]))
            params.update(k)
            docs = I.force(a[0])
            I.ctx.require(isinstance(docs, list) and [d.fields["n"] for d in docs] == [0, 1] and all(d.fields["of"] is inp["text"] for d in docs), "all documents of this stream, in order")
            ce, src, cf, rr = inp["p"]
            I.ctx.require(params.get("collect_errors") is ce and params.get("source") is src and params.get("collect_filters") is cf and params.get("resolve_references") is rr, "each option reaches from_dicts as the option of the same name")

    def frame_ok(self, I, inp, obj, name):
        return False
