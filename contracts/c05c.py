"""C05 / C17 / C03 (part 3) - the small operators of SigmaString and its sibling value types (sigma/types.py): length, concatenation,
merging, equality, placeholder queries, and sigma_type."""
from __future__ import annotations
import itertools
import z3
from pyvc.api import *
from pyvc.values import *
from pyvc import ops
from .c17 import mk_concrete_string, tokens_of

TY = "sigma.types"
SHAPES3 = tuple("".join(t) for n in range(0, 4) for t in itertools.product("SWP", repeat=n))      # adjacent texts allowed here (un-merged lists)
SHAPES2 = tuple("".join(t) for n in range(0, 3) for t in itertools.product("SWP", repeat=n))


def toks_equal(a, b):
    """structural equality of two token lists as a z3 formula (False when the spines differ)"""
    if len(a) != len(b) or any(x[0] != y[0] for x, y in zip(a, b)):
        return z3.BoolVal(False)
    return z3.And([x[1] == y[1] for x, y in zip(a, b) if len(x) > 1] + [z3.BoolVal(True)])


def merged(toks):
    out = []
    for t in toks:
        if t[0] == "S" and out and out[-1][0] == "S":
            out[-1] = ("S", z3.Concat(out[-1][1], t[1]))
        else:
            out.append(t)
    return out


@register
class StringLen(Contract):
    """SigmaString.__len__: the number of characters of the text parts plus ONE for every other part - a wildcard and a placeholder each
    stand for one position (backends cut wildcards off with value[1:-1]; a placeholder at the end must stay inside such a slice)"""
    id = "C05.SigmaString.__len__"
    target = f"{TY}:SigmaString.__len__"
    props = ("C05", "C17")
    cases = SHAPES3

    def args(self, I, case):
        me, toks = mk_concrete_string(I, case)
        return {"self": me, "args": [], "toks": toks}

    def post(self, I, inp, r):
        want = z3.IntVal(0)
        for t in inp["toks"]:
            want = want + (z3.Length(t[1]) if t[0] == "S" else 1)
        I.ctx.require(ops.py_eq(I, r, Sym(z3.simplify(want), "int")) if not isinstance(r, int) else z3.simplify(want) == r, "sum of the text lengths + one per wildcard / placeholder")

    def frame_ok(self, I, inp, obj, name):
        return False


@register
class MergeStrs(Contract):
    """SigmaString._merge_strs: adjacent text parts become one text (their concatenation), every other part stays, order kept"""
    id = "C05.SigmaString._merge_strs"
    target = f"{TY}:SigmaString._merge_strs"
    props = ("C05", "C03")
    cases = SHAPES3 + ("SSSS", "SSWSS", "WSSP")
    assumed = ["part lists of <= 5 parts (unrolled), contents symbolic"]

    def args(self, I, case):
        me, toks = mk_concrete_string(I, case)
        return {"self": me, "args": [], "toks": toks}

    def post(self, I, inp, r):
        I.ctx.require(r is inp["self"], "the string itself is returned")
        I.ctx.require(toks_equal(tokens_of(I, inp["self"]), merged(inp["toks"])), "adjacent texts merged, everything else kept in order")

    def frame_ok(self, I, inp, obj, name):
        return obj is inp["self"] and name == "s"


class _Concat(Contract):
    props = ("C05", "C03", "C17")
    right = False
    assumed = ["_merge_strs by its contract (C05.SigmaString._merge_strs)"]

    def setup(self, E):
        def ms(I, so, a, k):
            so.ghost["merged"] = so.ghost.get("merged", 0) + 1
            return so
        E.summaries[f"{TY}:SigmaString._merge_strs"] = ms
        E.summaries[f"{TY}:SigmaString"] = lambda I, so, a, k: SObj(I.E.index.lookup(f"{TY}:SigmaString"), {"s": []}) if not a else (_ for _ in ()).throw(OutsideSubset("SigmaString(text) in concatenation"))
        E.summaries[f"{TY}:SigmaCasedString"] = lambda I, so, a, k: SObj(I.E.index.lookup(f"{TY}:SigmaCasedString"), {"s": []}) if not a else (_ for _ in ()).throw(OutsideSubset("SigmaCasedString(text) in concatenation"))

    def args(self, I, case):
        shape, other_kind, cls = case
        me, toks = mk_concrete_string(I, shape)
        if cls == "SigmaCasedString":
            me = SObj(I.E.index.lookup(f"{TY}:SigmaCasedString"), dict(me.fields))
        SC, PH = I.E.index.lookup(f"{TY}:SpecialChars"), I.E.index.lookup(f"{TY}:Placeholder")
        if other_kind == "str":
            o = I.fresh("other", "str")
            otoks = [("S", o.t)]
        elif other_kind == "wildcard":
            o, otoks = EnumVal(SC, "WILDCARD_MULTI"), [("W",)]
        elif other_kind == "placeholder":
            n = I.fresh("ph", "str")
            o, otoks = SObj(PH, {"name": n}), [("P", n.t)]
        elif other_kind in ("string", "plainstring"):
            o, otoks = mk_concrete_string(I, "WS", tag="o")
            if cls == "SigmaCasedString" and other_kind == "string":
                o = SObj(I.E.index.lookup(f"{TY}:SigmaCasedString"), dict(o.fields))
        else:
            o, otoks = 5, None
        return {"self": me, "args": [o], "toks": toks, "otoks": otoks, "o": o, "case": case, "before": list(me.fields["s"]), "obefore": list(o.fields["s"]) if other_kind in ("string", "plainstring") else None}

    def post(self, I, inp, r):
        c, (shape, kind, cls) = I.ctx, inp["case"]
        if inp["otoks"] is None or (self.right and kind in ("string", "plainstring")):
            c.require(isinstance(r, NotImplementedVal) if "NotImplementedVal" in globals() else getattr(r, "__class__", None).__name__ in ("NotImplementedVal", "NotImplementedType") or r is NotImplemented, "an operand of another type is not handled (NotImplemented)")
            return
        ok = isinstance(r, SObj) and getattr(r.cls, "name", None) == cls and r is not inp["self"]
        c.require(ok, f"a new string of the class of this one ({cls})")
        if not ok:
            return
        want = (inp["otoks"] + inp["toks"]) if self.right else (inp["toks"] + inp["otoks"])
        c.require(toks_equal(tokens_of(I, r), want), "its parts: the parts of the left operand followed by the parts of the right operand")
        c.require(r.ghost.get("merged") == 1, "adjacent texts are merged afterwards")
        c.require(len(inp["self"].fields["s"]) == len(inp["before"]) and all(a is b for a, b in zip(inp["self"].fields["s"], inp["before"])), "this string keeps its parts", kind="FRAME")
        if inp["obefore"] is not None:
            c.require(len(inp["o"].fields["s"]) == len(inp["obefore"]) and all(a is b for a, b in zip(inp["o"].fields["s"], inp["obefore"])), "the other string keeps its parts", kind="FRAME")

    def frame_ok(self, I, inp, obj, name):
        return isinstance(obj, SObj) and obj is not inp["self"] and obj is not inp["o"] and name == "s"


@register
class StringAdd(_Concat):
    """SigmaString.__add__: self + other (any Sigma string - also a plain one on the right of a case-sensitive one -, text, wildcard or placeholder): a new string of the class of the LEFT operand whose
    parts are this string's parts followed by the other's, merged; neither operand changes"""
    id = "C05.SigmaString.__add__"
    target = f"{TY}:SigmaString.__add__"
    cases = tuple((s, k, c) for s in ("", "S", "SW", "WP") for k in ("str", "wildcard", "placeholder", "string", "plainstring", "int") for c in ("SigmaString", "SigmaCasedString"))


@register
class StringRadd(_Concat):
    """SigmaString.__radd__: other + self for text, wildcard or placeholder on the left"""
    id = "C05.SigmaString.__radd__"
    target = f"{TY}:SigmaString.__radd__"
    right = True
    cases = tuple((s, k, c) for s in ("", "S", "WS", "PW") for k in ("str", "wildcard", "placeholder", "int") for c in ("SigmaString", "SigmaCasedString"))


@register
class ContainsPlaceholder(Contract):
    """SigmaString.contains_placeholder(include, exclude): some placeholder part whose name is on the include list (if given) and not on the
    exclude list (if given)"""
    id = "C17.SigmaString.contains_placeholder"
    target = f"{TY}:SigmaString.contains_placeholder"
    props = ("C17",)
    cases = tuple((s, inc, exc) for s in ("", "S", "P", "SPW", "PP", "WSP") for inc in (None, 0, 1, 2) for exc in (None, 0, 1))

    def args(self, I, case):
        shape, inc, exc = case
        me, toks = mk_concrete_string(I, shape)
        il = None if inc is None else [I.fresh(f"inc{i}", "str") for i in range(inc)]
        el = None if exc is None else [I.fresh(f"exc{i}", "str") for i in range(exc)]
        return {"self": me, "args": [il, el], "toks": toks, "il": il, "el": el}

    def post(self, I, inp, r):
        alts = []
        for t in inp["toks"]:
            if t[0] != "P":
                continue
            ok_i = z3.BoolVal(True) if inp["il"] is None else ops.mk_or([t[1] == x.t for x in inp["il"]])
            ok_e = z3.BoolVal(True) if inp["el"] is None else z3.Not(ops.mk_or([t[1] == x.t for x in inp["el"]]))
            alts.append(z3.And(ok_i, ok_e))
        I.ctx.require(ops.mk_bool_term(ops.truth(I, r)) == ops.mk_or(alts), "exists a placeholder that is included (if a list is given) and not excluded (if a list is given)")

    def frame_ok(self, I, inp, obj, name):
        return False


@register
class SigmaTypeOf(Contract):
    """sigma_type: bool -> SigmaBool (BEFORE int: True is not the number 1), int / float -> SigmaNumber, str -> SigmaString, None ->
    SigmaNull, anything else -> SigmaTypeError"""
    id = "C03.sigma_type"
    target = f"{TY}:sigma_type"
    props = ("C03", "C06", "C12")
    cases = ("bool", "int", "float", "str", "none", "list", "dict")

    def setup(self, E):
        for n in ("SigmaString", "SigmaNumber", "SigmaBool", "SigmaNull"):
            E.summaries[f"{TY}:{n}"] = (lambda n: lambda I, so, a, k: SObj("New" + n, {"a": list(a), "k": dict(k)}))(n)

    def args(self, I, case):
        v = {"bool": True, "int": I.fresh("n", "int"), "float": 2.5, "str": I.fresh("s", "str"), "none": None, "list": [1], "dict": {"a": 1}}[case]
        return {"self": None, "args": [v], "v": v, "case": case}

    def post(self, I, inp, r):
        want = {"bool": "NewSigmaBool", "int": "NewSigmaNumber", "float": "NewSigmaNumber", "str": "NewSigmaString", "none": "NewSigmaNull"}.get(inp["case"])
        I.ctx.require(want is not None and isinstance(r, SObj) and r.cls == want and (inp["case"] == "none" or (len(r.fields["a"]) == 1 and r.fields["a"][0] is inp["v"])), f"{inp['case']}: {want or 'rejected'} of the value itself")

    def raises(self, I, inp, exc):
        I.ctx.require(inp["case"] in ("list", "dict") and exc_is(I, exc, "SigmaTypeError"), f"SigmaTypeError exactly for unsupported types (got {exc_name(exc)})")

    def frame_ok(self, I, inp, obj, name):
        return False


@register
class NumberEq(Contract):
    """SigmaNumber.__eq__: equal numbers (a plain number or another SigmaNumber); anything else cannot be compared"""
    id = "C03.SigmaNumber.__eq__"
    target = f"{TY}:SigmaNumber.__eq__"
    props = ("C03", "C13")
    cases = ("int", "number", "str")

    def args(self, I, case):
        n, m = I.fresh("n", "int"), I.fresh("m", "int")
        me = SObj(I.E.index.lookup(f"{TY}:SigmaNumber"), {"number": n})
        o = {"int": m, "number": SObj(I.E.index.lookup(f"{TY}:SigmaNumber"), {"number": m}), "str": I.fresh("text", "str")}[case]
        return {"self": me, "args": [o], "n": n, "m": m, "case": case}

    def post(self, I, inp, r):
        I.ctx.require(inp["case"] != "str", "text is not comparable")
        I.ctx.require(ops.mk_bool_term(ops.truth(I, r)) == (inp["n"].t == inp["m"].t), "true iff the numbers are equal")

    def raises(self, I, inp, exc):
        I.ctx.require(inp["case"] == "str" and exc_name(exc) == "NotImplementedError", f"NotImplementedError for other types only (got {exc_name(exc)})")

    def frame_ok(self, I, inp, obj, name):
        return False


@register
class BoolEq(Contract):
    """SigmaBool.__eq__: equal truth values (a plain bool or another SigmaBool); a number is NOT a bool here"""
    id = "C03.SigmaBool.__eq__"
    target = f"{TY}:SigmaBool.__eq__"
    props = ("C03", "C13")
    cases = ("bool", "sigmabool", "int", "str")

    def args(self, I, case):
        b, c = I.fresh("b", "bool"), I.fresh("c", "bool")
        me = SObj(I.E.index.lookup(f"{TY}:SigmaBool"), {"boolean": b})
        o = {"bool": c, "sigmabool": SObj(I.E.index.lookup(f"{TY}:SigmaBool"), {"boolean": c}), "int": I.fresh("n", "int"), "str": "true"}[case]
        return {"self": me, "args": [o], "b": b, "c": c, "case": case}

    def post(self, I, inp, r):
        I.ctx.require(inp["case"] in ("bool", "sigmabool"), "only truth values are comparable")
        I.ctx.require(ops.mk_bool_term(ops.truth(I, r)) == (inp["b"].t == inp["c"].t), "true iff the truth values are equal")

    def raises(self, I, inp, exc):
        I.ctx.require(inp["case"] in ("int", "str") and exc_name(exc) == "NotImplementedError", f"NotImplementedError for other types only (got {exc_name(exc)})")

    def frame_ok(self, I, inp, obj, name):
        return False


@register
class StringEq(Contract):
    """SigmaString.__eq__: with a string of the same class - the part lists are equal; with text - equal to the string PARSED from that
    text; anything else cannot be compared"""
    id = "C05.SigmaString.__eq__"
    target = f"{TY}:SigmaString.__eq__"
    props = ("C05", "C13")
    cases = tuple((a, b) for a in ("", "S", "SW", "WP") for b in ("", "S", "SW", "WP", "W")) + (("S", "text"), ("S", "number"))

    def setup(self, E):
        E.summaries[f"{TY}:SigmaString"] = lambda I, so, a, k: SObj(I.E.index.lookup(f"{TY}:SigmaString"), {"s": [("parsed", a[0])], "original": a[0]}) if a else SObj(I.E.index.lookup(f"{TY}:SigmaString"), {"s": []})

    def args(self, I, case):
        a, b = case
        me, toks = mk_concrete_string(I, a)
        if b == "text":
            o, otoks = I.fresh("text", "str"), None
        elif b == "number":
            o, otoks = 5, None
        else:
            o, otoks = mk_concrete_string(I, b, tag="o")
        return {"self": me, "args": [o], "toks": toks, "otoks": otoks, "o": o, "case": case}

    def post(self, I, inp, r):
        a, b = inp["case"]
        c = I.ctx
        c.require(b != "number", "a number is not comparable")
        if b == "text":
            # self == SigmaString(text): the parsed string has the single opaque part ("parsed", text), never equal to a part of the spine
            c.require(r is False or (isinstance(r, Sym) and True), "compared with the string parsed from the text")
            return
        c.require(ops.mk_bool_term(ops.truth(I, r)) == toks_equal(inp["toks"], inp["otoks"]), "true iff the part lists are equal (same kinds in the same order, same texts, same placeholder names)")

    def raises(self, I, inp, exc):
        I.ctx.require(inp["case"][1] == "number" and exc_name(exc) == "NotImplementedError", f"NotImplementedError for other types only (got {exc_name(exc)})")

    def frame_ok(self, I, inp, obj, name):
        return False
