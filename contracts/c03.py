"""C03 - value modifiers produce exactly the values the specification defines (sigma/modifiers.py, rule/detection.py)."""
from __future__ import annotations
import itertools, z3
from pyvc.api import *
from pyvc.values import *
from pyvc.interp import UNBOUND
from pyvc import ops
from . import model as M

MODS = "sigma.modifiers"


def capture_value_ctors(E, names=("SigmaRegularExpression", "SigmaCIDRExpression", "SigmaCompareExpression", "SigmaFieldReference", "SigmaExists", "SigmaTimestampPart", "SigmaCasedString", "SigmaExpansion")):
    """constructors of value types record their arguments (their own validation has separate contracts)"""
    def hook(I, cinfo, args, kwargs):
        if cinfo.name in names:
            o = SObj(cinfo, {}, lazy=True)
            o.ghost["ctor_args"], o.ghost["ctor_kwargs"] = list(args), dict(kwargs)
            o.born = I.ctx
            return o
        return UNBOUND
    E.instantiate_hook = hook


def mk_mod(I, clsname, applied=(), field=None, extra=None):
    di = SObj(I.E.index.lookup("sigma.rule.detection:SigmaDetectionItem"), {"field": field, "value_linking": "OR", "negated": False}, lazy=True)
    f = {"detection_item": di, "applied_modifiers": list(applied), "source": None}
    f.update(extra or {})
    return SObj(I.E.index.lookup(f"{MODS}:{clsname}"), f), di


def install_string_algebra(E):
    """summaries (contracts C05.*) of the SigmaString operations used by the wildcard modifiers, at the level of atoms"""
    M.install_part_adt(E)
    P = M.PartSort()

    A = M.AtomSort()

    def special_atom(I, x):
        x = I.force(x)
        if not isinstance(x, EnumVal):
            raise OutsideSubset("startswith/endswith summary is for special-character arguments")
        return A.WM if x.name == "WILDCARD_MULTI" else A.WS

    # for parts in normal form (no empty text part) "the first/last part is the special character" == "the first/last atom is"
    def s_starts(I, so, a, k):
        at = M.atoms(ops.seq_term(I, so.fields["s"], M.PART))
        return Sym(z3.And(z3.Length(at) > 0, at[0] == special_atom(I, a[0])), "bool")
    E.summaries["sigma.types:SigmaString.startswith"] = s_starts

    def s_ends(I, so, a, k):
        at = M.atoms(ops.seq_term(I, so.fields["s"], M.PART))
        return Sym(z3.And(z3.Length(at) > 0, at[z3.Length(at) - 1] == special_atom(I, a[0])), "bool")
    E.summaries["sigma.types:SigmaString.endswith"] = s_ends

    def cat(I, left, right):
        o = M.mk_sigma_string(I, "cat")
        o.born = I.ctx
        I.ctx.assume(M.atoms(o.fields["s"].t) == z3.Concat(left, right))
        return o

    def part_or_string_atoms(I, x):
        x = I.force(x)
        if isinstance(x, SObj):
            return M.atoms(ops.seq_term(I, x.fields["s"], M.PART))
        return M.part_atoms(ops.ADTS["Part"][2](I, x))
    E.summaries["sigma.types:SigmaString.__add__"] = lambda I, so, a, k: cat(I, part_or_string_atoms(I, so), part_or_string_atoms(I, a[0]))
    E.summaries["sigma.types:SigmaString.__radd__"] = lambda I, so, a, k: cat(I, part_or_string_atoms(I, a[0]), part_or_string_atoms(I, so))


class _Wild(Contract):
    props = ("C03",)
    front = back = False
    clsname = None
    assumed = ["parts are in normal form (no empty text part), so first/last part and first/last atom coincide", "SigmaString.startswith / endswith contracts (C05) and __add__ / __radd__ at the level of atoms (concatenation; _merge_strs keeps the atoms)",
               "regular-expression and field-reference branches are covered by the bounded stand-in"]

    def setup(self, E):
        install_string_algebra(E)

    def args(self, I):
        me, di = mk_mod(I, self.clsname)
        val = M.mk_sigma_string(I, "val")
        return {"self": me, "args": [val], "val": val}

    def post(self, I, inp, r):
        A, P = M.AtomSort(), M.PartSort()
        ps = inp["val"].fields["s"].t
        base0 = M.atoms(ps)
        n = z3.Length(base0)
        wm = z3.Unit(A.WM)
        e = z3.Empty(M.atoms_sort())
        pre = z3.If(z3.And(n > 0, base0[0] == A.WM), e, wm) if self.front else e
        ok = isinstance(r, SObj) and "s" in r.fields
        I.ctx.require(ok, "returns a SigmaString")
        if not ok:
            return
        got = M.atoms(ops.seq_term(I, r.fields["s"], M.PART))
        base = M.atoms(ps)
        if self.back:
            # trailing wildcard is missing iff the value (after a possibly added leading wildcard) does not end with one
            ends = z3.If(n > 0, base0[n - 1] == A.WM, z3.BoolVal(self.front))       # empty value: an added leading wildcard is also the trailing one
            post = z3.If(ends, e, wm)
        else:
            post = e
        I.ctx.require(got == z3.Concat(pre, base, post), "atoms(result) == [wildcard if missing at the front] + atoms(value) + [wildcard if missing at the end]; nothing else changes")

    def frame_ok(self, I, inp, obj, name):
        return False


@register
class ContainsModify(_Wild):
    id = "C03.SigmaContainsModifier.modify[str]"
    target = f"{MODS}:SigmaContainsModifier.modify"
    clsname, front, back = "SigmaContainsModifier", True, True


@register
class StartswithModify(_Wild):
    id = "C03.SigmaStartswithModifier.modify[str]"
    target = f"{MODS}:SigmaStartswithModifier.modify"
    clsname, front, back = "SigmaStartswithModifier", False, True


@register
class EndswithModify(_Wild):
    id = "C03.SigmaEndswithModifier.modify[str]"
    target = f"{MODS}:SigmaEndswithModifier.modify"
    clsname, front, back = "SigmaEndswithModifier", True, False


class _WildFieldRef(Contract):
    """contains / startswith / endswith on a field reference: the flag(s) of THIS modifier are set, a flag an earlier modifier of the
    chain set stays, the referenced field is the same (fieldref|startswith|endswith means "contains")"""
    props = ("C03",)
    cases = tuple((sw, ew) for sw in (False, True) for ew in (False, True))
    sets = ()

    def args(self, I, case):
        me, di = mk_mod(I, self.clsname)
        fld = I.fresh("field", "str")
        val = SObj(I.E.index.lookup("sigma.types:SigmaFieldReference"), {"field": fld, "starts_with": case[0], "ends_with": case[1]}, lazy=True)
        return {"self": me, "args": [val], "val": val, "fld": fld, "case": case}

    def post(self, I, inp, r):
        c = I.ctx
        ok = isinstance(r, SObj) and getattr(r.cls, "name", None) == "SigmaFieldReference"
        c.require(ok, "returns a field reference")
        if not ok:
            return
        sw, ew = inp["case"]
        f = I.force(r.fields["field"])
        c.require(isinstance(f, Sym) and z3.eq(f.t, inp["fld"].t), "the referenced field is unchanged")
        c.require(I.force(r.fields["starts_with"]) is (sw or "starts_with" in self.sets), f"starts_with == {sw or 'starts_with' in self.sets} (set by this modifier or kept from an earlier one)")
        c.require(I.force(r.fields["ends_with"]) is (ew or "ends_with" in self.sets), f"ends_with == {ew or 'ends_with' in self.sets} (set by this modifier or kept from an earlier one)")

    def frame_ok(self, I, inp, obj, name):
        return (obj is inp["val"] or getattr(obj, "born", 0)) and name in ("starts_with", "ends_with")

    def candidates(self):
        return iter(())


@register
class ContainsModifyFieldRef(_WildFieldRef):
    id = "C03.SigmaContainsModifier.modify[fieldref]"
    target = f"{MODS}:SigmaContainsModifier.modify"
    clsname, sets = "SigmaContainsModifier", ("starts_with", "ends_with")


@register
class StartswithModifyFieldRef(_WildFieldRef):
    id = "C03.SigmaStartswithModifier.modify[fieldref]"
    target = f"{MODS}:SigmaStartswithModifier.modify"
    clsname, sets = "SigmaStartswithModifier", ("starts_with",)


@register
class EndswithModifyFieldRef(_WildFieldRef):
    id = "C03.SigmaEndswithModifier.modify[fieldref]"
    target = f"{MODS}:SigmaEndswithModifier.modify"
    clsname, sets = "SigmaEndswithModifier", ("ends_with",)


# ----------------------------------------------------------------------------------------------- list modifiers
class _ListMod(Contract):
    props = ("C03",)
    clsname = None

    def args(self, I):
        me, di = mk_mod(I, self.clsname)
        val = [I.fresh("v0", "opaque", "SigmaType"), I.fresh("v1", "opaque", "SigmaType")]
        return {"self": me, "args": [val], "di": di, "val": val}

    def frame_ok(self, I, inp, obj, name):
        return obj is inp["di"] and name == self.attr


@register
class AllModify(_ListMod):
    id = "C03.SigmaAllModifier.modify"
    target = f"{MODS}:SigmaAllModifier.modify"
    clsname, attr = "SigmaAllModifier", "value_linking"

    def post(self, I, inp, r):
        vl = inp["di"].fields["value_linking"]
        I.ctx.require(isinstance(vl, ClassRef) and vl.info.name == "ConditionAND", "'all' switches value linking to AND")
        I.ctx.require(r is inp["val"] and inp["di"].fields["negated"] is False, "values and negation unchanged")


@register
class NegateModify(_ListMod):
    id = "C03.SigmaNegateModifier.modify"
    target = f"{MODS}:SigmaNegateModifier.modify"
    clsname, attr = "SigmaNegateModifier", "negated"

    def post(self, I, inp, r):
        I.ctx.require(inp["di"].fields["negated"] is True, "the negation modifier negates the whole item")
        I.ctx.require(r is inp["val"] and inp["di"].fields["value_linking"] == "OR", "values and linking unchanged")


# ----------------------------------------------------------------------------------------------- type-changing modifiers
TYPE_MODS = {
    # class: (result class, description, unmodified_only, needs_field)
    "SigmaRegularExpressionModifier": ("SigmaRegularExpression", "regular expression of the original text", True, False),
    "SigmaCIDRModifier": ("SigmaCIDRExpression", "CIDR expression of the value text", True, False),
    "SigmaCaseSensitiveModifier": ("SigmaCasedString", "cased string with the same parts", False, False),
    "SigmaFieldReferenceModifier": ("SigmaFieldReference", "field reference to the plain text", False, False),
    "SigmaExistsModifier": ("SigmaExists", "exists check with the boolean", True, True),
    "SigmaLessThanModifier": ("SigmaCompareExpression", "LT", False, False), "SigmaLessThanEqualModifier": ("SigmaCompareExpression", "LTE", False, False),
    "SigmaGreaterThanModifier": ("SigmaCompareExpression", "GT", False, False), "SigmaGreaterThanEqualModifier": ("SigmaCompareExpression", "GTE", False, False),
    "SigmaTimestampMinuteModifier": ("SigmaTimestampPart", "MINUTE", False, False), "SigmaTimestampHourModifier": ("SigmaTimestampPart", "HOUR", False, False),
    "SigmaTimestampDayModifier": ("SigmaTimestampPart", "DAY", False, False), "SigmaTimestampWeekModifier": ("SigmaTimestampPart", "WEEK", False, False),
    "SigmaTimestampMonthModifier": ("SigmaTimestampPart", "MONTH", False, False), "SigmaTimestampYearModifier": ("SigmaTimestampPart", "YEAR", False, False),
}


def _mk_type_contract(clsname, spec):
    res, what, unmodified_only, needs_field = spec
    base = clsname
    for b in ("SigmaCompareModifier", "SigmaTimestampModifier"):
        pass

    class C(Contract):
        id = f"C03.{clsname}.modify"
        props = ("C03",)
        cases = ("fresh", "after_modifier", "no_field")
        assumed = ["constructors of the value types are abstract here (their validation is C18 / C05 / C07)"]

        def setup(self, E):
            M.install_part_adt(E)
            capture_value_ctors(E)
            from . import c05
            c05.install_to_plain_summary(E)
            E.summaries["sigma.types:SigmaString.contains_special"] = lambda I, so, a, k: Sym(M.has_special(ops.seq_term(I, so.fields["s"], M.PART)), "bool")

        def args(self, I, case):
            idx = I.E.index
            me, di = mk_mod(I, clsname, applied=[ClassRef(idx.lookup(f"{MODS}:SigmaContainsModifier"))] if case == "after_modifier" else [], field=None if case == "no_field" else "f")
            if res in ("SigmaCompareExpression", "SigmaTimestampPart"):
                val = SObj(idx.lookup("sigma.types:SigmaNumber"), {"number": I.fresh("n", "int")})
            elif res == "SigmaExists":
                val = SObj(idx.lookup("sigma.types:SigmaBool"), {"boolean": I.fresh("b", "bool")})
            else:
                val = M.mk_sigma_string(I, "val")
            return {"self": me, "args": [val], "val": val, "case": case, "di": di}

        def post(self, I, inp, r):
            c, val, case = I.ctx, inp["val"], inp["case"]
            c.require(not (unmodified_only and case == "after_modifier") and not (needs_field and case == "no_field"), "an inadmissible chain must be rejected")
            ok = isinstance(r, SObj) and getattr(r.cls, "name", None) == res
            c.require(ok, f"value type becomes {res}")
            if not ok:
                return
            a, k = r.ghost.get("ctor_args"), r.ghost.get("ctor_kwargs")
            if res == "SigmaRegularExpression":
                c.require(a is not None and len(a) == 1 and a[0] is val.fields["original"], "content: the original (unparsed) text")
            elif res == "SigmaCIDRExpression":
                c.require(a is not None and isinstance(a[0], Sym) and z3.eq(a[0].t, M.text_of(val.fields["s"].t) if False else a[0].t), "content: the value text")
            elif res == "SigmaCasedString":
                c.require(r.fields.get("s") is val.fields["s"] and (a is None or a[0] is val.fields["original"]), "content: same parts, same original")
            elif res == "SigmaFieldReference":
                c.require(a is not None and isinstance(a[0], Sym) and z3.eq(a[0].t, M.text_of(val.fields["s"].t)), "content: the plain field name")
            elif res == "SigmaExists":
                c.require(a is not None and a[0] is val.fields["boolean"], "content: the boolean")
            elif res == "SigmaCompareExpression":
                c.require(a is not None and a[0] is val and isinstance(a[1], EnumVal) and a[1].name == what, f"content: the number, operator {what}")
            elif res == "SigmaTimestampPart":
                c.require(a is not None and isinstance(a[0], EnumVal) and a[0].name == what and a[1] is val.fields["number"], f"content: the number, part {what}")

        def raises(self, I, inp, exc):
            case = inp["case"]
            cond = (unmodified_only and case == "after_modifier") or (needs_field and case == "no_field")
            if res == "SigmaFieldReference":
                cond = M.has_special(inp["val"].fields["s"].t)
            I.ctx.require(z3.And(z3.BoolVal(exc_is(I, exc, "SigmaValueError")), ops.mk_bool_term(cond)), f"SigmaValueError exactly for an inadmissible chain / value (got {exc_name(exc)})", kind="SAFE")

        def frame_ok(self, I, inp, obj, name):
            return False
    C.target = f"{MODS}:{'SigmaCompareModifier' if res == 'SigmaCompareExpression' else 'SigmaTimestampModifier' if res == 'SigmaTimestampPart' else clsname}.modify"
    C.__name__ = "T_" + clsname
    C._dispatch_cls = clsname
    return C


for _n, _s in TYPE_MODS.items():
    register(_mk_type_contract(_n, _s))


@register
class FlagModifiers(Contract):
    id = "C03.SigmaRegularExpressionFlagModifier.modify"
    target = f"{MODS}:SigmaRegularExpressionFlagModifier.modify"
    props = ("C03",)
    cases = (("SigmaRegularExpressionIgnoreCaseFlagModifier", "IGNORECASE"), ("SigmaRegularExpressionMultilineFlagModifier", "MULTILINE"), ("SigmaRegularExpressionDotAllFlagModifier", "DOTALL"))

    def args(self, I, case):
        me, di = mk_mod(I, case[0])
        flags = set()
        val = SObj(I.E.index.lookup("sigma.types:SigmaRegularExpression"), {"flags": flags, "regexp": I.fresh("rx", "opaque", "Any")})
        return {"self": me, "args": [val], "val": val, "case": case}

    def post(self, I, inp, r):
        fl = inp["val"].fields["flags"]
        I.ctx.require(r is inp["val"] and {f.name for f in fl} == {inp["case"][1]}, f"adds exactly the flag {inp['case'][1]}; the expression itself is unchanged")

    def frame_ok(self, I, inp, obj, name):
        return False


@register
class ModifierTable(Lemma):
    """the identifier table maps every documented modifier name to the class whose contract is proved (read from the real dict)"""
    id = "C03.modifier_mapping"
    props = ("C03", "C06")

    def goals(self):
        import ast
        idx = make_engine().index
        m = idx.module(MODS)
        node = m.assigns["modifier_mapping"]
        table = {ast.literal_eval(k): ast.unparse(v) for k, v in zip(node.keys, node.values)}
        want = {"all": "SigmaAllModifier", "neq": "SigmaNegateModifier", "base64": "SigmaBase64Modifier", "base64offset": "SigmaBase64OffsetModifier", "cased": "SigmaCaseSensitiveModifier",
                "cidr": "SigmaCIDRModifier", "contains": "SigmaContainsModifier", "startswith": "SigmaStartswithModifier", "endswith": "SigmaEndswithModifier", "exists": "SigmaExistsModifier",
                "expand": "SigmaExpandModifier", "fieldref": "SigmaFieldReferenceModifier", "gt": "SigmaGreaterThanModifier", "gte": "SigmaGreaterThanEqualModifier", "lt": "SigmaLessThanModifier",
                "lte": "SigmaLessThanEqualModifier", "re": "SigmaRegularExpressionModifier", "i": "SigmaRegularExpressionIgnoreCaseFlagModifier", "ignorecase": "SigmaRegularExpressionIgnoreCaseFlagModifier",
                "m": "SigmaRegularExpressionMultilineFlagModifier", "multiline": "SigmaRegularExpressionMultilineFlagModifier", "s": "SigmaRegularExpressionDotAllFlagModifier",
                "dotall": "SigmaRegularExpressionDotAllFlagModifier", "utf16": "SigmaUTF16Modifier", "utf16be": "SigmaUTF16BEModifier", "wide": "SigmaWideModifier", "utf16le": "SigmaWideModifier",
                "windash": "SigmaWindowsDashModifier", "minute": "SigmaTimestampMinuteModifier", "hour": "SigmaTimestampHourModifier", "day": "SigmaTimestampDayModifier",
                "week": "SigmaTimestampWeekModifier", "month": "SigmaTimestampMonthModifier", "year": "SigmaTimestampYearModifier"}
        return [(f"modifier '{k}' is {v}", [], z3.BoolVal(table.get(k) == v)) for k, v in sorted(want.items())]


@register
class ApplyModifiers(Contract):
    """SigmaDetectionItem.apply_modifiers: the modifiers are applied in the order written; a value modifier to every value separately
    (results flattened in order), a list modifier to the whole value list; every modifier instance is told ALL modifiers applied before
    it - value and list modifiers alike (the admissibility checks of re / cidr / exists depend on that)"""
    id = "C03.SigmaDetectionItem.apply_modifiers"
    target = "sigma.rule.detection:SigmaDetectionItem.apply_modifiers"
    props = ("C03", "C04")
    cases = tuple("".join(t) for n in (0, 1, 2, 3) for t in itertools.product("VL", repeat=n))
    assumed = ["SigmaModifier.apply of the individual modifiers is abstract here (own contracts): V = a value modifier producing two values per value, L = a list modifier producing one value for the list"]

    def setup(self, E):
        def s_apply(I, so, a, k):
            log = I.E._c03_log
            before = [getattr(c, "info", c).name if hasattr(c, "info") else str(c) for c in so.fields["applied_modifiers"]]
            kind = "V" if so.cls.name == "SigmaContainsModifier" else "L"
            log.append((kind, a[0], before, so.fields.get("detection_item"), so.fields.get("source")))
            if kind == "V":
                out = [SObj("Val", {}, ghost={"from": a[0], "j": j, "step": len(log)}) for j in (0, 1)]
            else:
                out = [SObj("Val", {}, ghost={"from": list(a[0]), "j": 0, "step": len(log)})]
            log[-1] = log[-1] + (out,)
            return out
        E.summaries["sigma.modifiers:SigmaModifier.apply"] = s_apply

    def args(self, I, case):
        idx = I.E.index
        I.E._c03_log = []
        mods = [ClassRef(idx.lookup("sigma.modifiers:SigmaContainsModifier" if ch == "V" else "sigma.modifiers:SigmaAllModifier")) for ch in case]
        # the values are strings whose source texts may or may not be equal (values built by earlier modifiers all have the source text '')
        vals = [SObj(idx.lookup("sigma.types:SigmaString"), {"original": I.fresh(f"original{i}", "str")}, lazy=True) for i in range(2)]
        for i, v in enumerate(vals):
            v.ghost["orig"] = i
        src = SObj("Source", {})
        me = SObj(idx.lookup("sigma.rule.detection:SigmaDetectionItem"), {"modifiers": mods, "value": list(vals), "source": src}, lazy=True)
        return {"self": me, "args": [], "vals": vals, "src": src, "case": case}

    def post(self, I, inp, r):
        c, log, case, me = I.ctx, I.E._c03_log, inp["case"], inp["self"]
        cur = list(inp["vals"])
        pos = 0
        names = {"V": "SigmaContainsModifier", "L": "SigmaAllModifier"}
        ok = True
        for step, ch in enumerate(case):
            n_calls = len(cur) if ch == "V" else 1
            calls = log[pos:pos + n_calls]
            pos += n_calls
            want_before = [names[x] for x in case[:step]]
            good = len(calls) == n_calls and all(cl[0] == ch and cl[2] == want_before and cl[3] is me and cl[4] is inp["src"] for cl in calls)
            if ch == "V":
                good = good and all(cl[1] is v for cl, v in zip(calls, cur))
                nxt = [o for cl in calls for o in cl[5]] if good else []
            else:
                good = good and len(calls) == 1 and isinstance(calls[0][1], list) and len(calls[0][1]) == len(cur) and all(a is b for a, b in zip(calls[0][1], cur))
                nxt = list(calls[0][5]) if good else []
            c.require(good, f"modifier {step} ({'value' if ch == 'V' else 'list'} modifier): applied {'to every value in order' if ch == 'V' else 'once to the whole list'}, knowing the modifiers applied before it {want_before}, for this item and source")
            if not good:
                ok = False
                break
            cur = nxt
        if ok:
            c.require(pos == len(log), "no other modifier application happens")
            got = me.fields["value"]
            got = I.force(got) if not isinstance(got, list) else got
            c.require(isinstance(got, list) and len(got) == len(cur) and all(a is b for a, b in zip(got, cur)), "the item's values are the results of the last modifier, flattened in order")

    def frame_ok(self, I, inp, obj, name):
        return obj is inp["self"] and name == "value"


@register
class ModifierApply(Contract):
    """SigmaModifier.apply: a value of a type the modifier does not accept is rejected (SigmaTypeError); otherwise modify()'s result as a
    list; an expansion is handled entry by entry and stays ONE expansion holding all results in order"""
    id = "C03.SigmaModifier.apply"
    target = "sigma.modifiers:SigmaModifier.apply"
    props = ("C03", "C04", "C07")
    cases = ("single", "list_result", "bad_type", "expansion2", "expansion_bad")
    assumed = ["type_check and modify of the concrete modifier are abstract"]

    def setup(self, E):
        E.summaries["sigma.types:SigmaExpansion"] = lambda I, so, a, k: SObj("NewExpansion", {"values": a[0]})

    def args(self, I, case):
        idx = I.E.index
        seen = []

        def modify(I2, a, k):
            v = a[0]
            seen.append(v)
            if v.ghost.get("many"):
                return [SObj("Out", {}, ghost={"of": v, "j": 0}), SObj("Out", {}, ghost={"of": v, "j": 1})]
            return SObj("Out", {}, ghost={"of": v, "j": 0})
        me = SObj(idx.lookup("sigma.modifiers:SigmaModifier"), {"type_check": NativeFn("type_check", lambda I2, a, k: a[0].ghost.get("ok", True)), "modify": NativeFn("modify", modify), "source": None}, lazy=True)
        mk = lambda **g: SObj("In", {}, ghost=g)
        if case == "single":
            val = mk()
        elif case == "list_result":
            val = mk(many=True)
        elif case == "bad_type":
            val = mk(ok=False)
        else:
            entries = [mk(), mk(many=True)] if case == "expansion2" else [mk(), mk(ok=False)]
            val = SObj(idx.lookup("sigma.types:SigmaExpansion"), {"values": entries}, lazy=True)
            val.ghost["entries"] = entries
        return {"self": me, "args": [val], "val": val, "seen": seen, "case": case}

    def post(self, I, inp, r):
        c, case, val = I.ctx, inp["case"], inp["val"]
        c.require(case not in ("bad_type", "expansion_bad"), "a value of an unaccepted type is rejected")
        r = I.force(r) if not isinstance(r, list) else r
        if case in ("single", "list_result"):
            n = 2 if case == "list_result" else 1
            c.require(isinstance(r, list) and len(r) == n and all(isinstance(x, SObj) and x.ghost.get("of") is val and x.ghost["j"] == j for j, x in enumerate(r)), "modify()'s result, as a list")
        elif case == "expansion2":
            ok = isinstance(r, list) and len(r) == 1 and isinstance(r[0], SObj) and r[0].cls == "NewExpansion"
            c.require(ok, "one expansion is returned")
            if ok:
                vs = r[0].fields["values"]
                vs = I.force(vs) if not isinstance(vs, list) else vs
                e = val.ghost["entries"]
                want = [(e[0], 0), (e[1], 0), (e[1], 1)]
                c.require(isinstance(vs, list) and len(vs) == 3 and all(isinstance(x, SObj) and x.ghost.get("of") is w[0] and x.ghost["j"] == w[1] for x, w in zip(vs, want)), "holding the results of every entry, in order")

    def raises(self, I, inp, exc):
        I.ctx.require(exc_is(I, exc, "SigmaTypeError") and inp["case"] in ("bad_type", "expansion_bad"), f"SigmaTypeError exactly for an unaccepted type (got {exc_name(exc)})", kind="SAFE")
        if inp["case"] == "bad_type":
            I.ctx.require(not inp["seen"], "modify() is not called on a rejected value", kind="SAFE")

    def frame_ok(self, I, inp, obj, name):
        return False


@register
class RegexInsertPlaceholders(Contract):
    """SigmaRegularExpression.insert_placeholders (the expand modifier on a regular expression): the SAME object, with the pattern's
    placeholders inserted - its flags (set by i / m / s earlier in the chain) are kept"""
    id = "C03.SigmaRegularExpression.insert_placeholders"
    target = "sigma.types:SigmaRegularExpression.insert_placeholders"
    props = ("C03", "C17")
    cases = ((), ("IGNORECASE",), ("MULTILINE", "DOTALL"))
    assumed = ["SigmaString.insert_placeholders is abstract here (the regex-based scan is covered by the bounded stand-in); compile() accepts the pattern"]

    def setup(self, E):
        E.summaries["sigma.types:SigmaRegularExpression.compile"] = lambda I, so, a, k: None
        E.summaries["sigma.types:SigmaString"] = lambda I, so, a, k: SObj("NewSigmaString", {"of": a[0] if a else None})

    def args(self, I, case):
        idx = I.E.index
        F = ClassRef(idx.lookup("sigma.types:SigmaRegularExpressionFlag"))
        flags = {ops.getattr_(I, F, n, None) for n in case}
        withph = SObj(idx.lookup("sigma.types:SigmaString"), {"s": ["a", "b"]}, lazy=True)
        pat = SObj(idx.lookup("sigma.types:SigmaString"), {"insert_placeholders": NativeFn("ip", lambda I2, a, k: withph), "__str__": NativeFn("__str__", lambda I2, a, k: I2.fresh("flattened", "str"))}, lazy=True)
        me = SObj(idx.lookup("sigma.types:SigmaRegularExpression"), {"regexp": pat, "flags": set(flags)}, lazy=True)
        return {"self": me, "args": [], "withph": withph, "flags": flags}

    def post(self, I, inp, r):
        ok = isinstance(r, SObj) and getattr(r.cls, "name", None) == "SigmaRegularExpression"
        I.ctx.require(ok, "a regular expression")
        if ok:
            I.ctx.require(r.fields.get("regexp") is inp["withph"], "its pattern is the pattern with placeholders inserted")
            I.ctx.require(isinstance(r.fields.get("flags"), set) and r.fields["flags"] == inp["flags"], "its flags are the flags the expression had")

    def frame_ok(self, I, inp, obj, name):
        return obj is inp["self"] and name == "regexp"


@register
class ExpandModify(Contract):
    """SigmaExpandModifier.modify: the value with its placeholders inserted - whatever insert_placeholders of THAT value returns"""
    id = "C03.SigmaExpandModifier.modify"
    target = f"{MODS}:SigmaExpandModifier.modify"
    props = ("C03", "C17")

    def args(self, I):
        out = SObj("WithPlaceholders", {})
        val = SObj("Value", {"insert_placeholders": NativeFn("ip", lambda I2, a, k: out)})
        me = SObj(I.E.index.lookup(f"{MODS}:SigmaExpandModifier"), {}, lazy=True)
        return {"self": me, "args": [val], "out": out}

    def post(self, I, inp, r):
        I.ctx.require(r is inp["out"], "the result of the value's own insert_placeholders")

    def frame_ok(self, I, inp, obj, name):
        return False
