"""C11 - a filter narrows exactly the rules it targets and nothing else (filters.py, logsource.py)."""
from __future__ import annotations
import z3
from pyvc.api import *
from pyvc.values import *
from pyvc import ops
from .c02 import glob


def optstr(I, name):
    return SOpt(z3.Bool(I.ctx.fresh_name(name + "_none")), I.fresh(name, "str"))


def mk_logsource(I, tag):
    L = I.E.index.lookup("sigma.rule.logsource:SigmaLogSource")
    f = {k: optstr(I, f"{tag}.{k}") for k in ("category", "product", "service", "definition")}      # the free-text definition never matters for covering
    f.update(source=None, custom_attributes=None)
    return SObj(L, f)


def opt_eq(a, b):
    """equality of two Optional[str] values as a z3 term"""
    return z3.Or(z3.And(a.is_none, b.is_none), z3.And(z3.Not(a.is_none), z3.Not(b.is_none), a.val.t == b.val.t))


def covers(f, r):
    return z3.And(*[z3.Or(f.fields[k].is_none, opt_eq(f.fields[k], r.fields[k])) for k in ("category", "product", "service")])


@register
class LogSourceContains(Contract):
    """`other in self`: the (less specific) log source self covers other iff every attribute self specifies is equal in other (A.6)"""
    id = "C11.SigmaLogSource.__contains__"
    target = "sigma.rule.logsource:SigmaLogSource.__contains__"
    props = ("C11", "C13")

    def args(self, I):
        a, b = mk_logsource(I, "self"), mk_logsource(I, "other")
        return {"self": a, "args": [b], "a": a, "b": b}

    def post(self, I, inp, r):
        I.ctx.require(ops.mk_bool_term(ops.truth(I, r)) == covers(inp["a"], inp["b"]), "covered iff category, product and service are each unspecified in self or equal in other")

    def frame_ok(self, I, inp, obj, name):
        return False


def refers(ref, rule_t):
    return z3.Function("reference_resolves_to", z3.StringSort(), z3.DeclareSort("Rule"), z3.BoolSort())(ref, rule_t)


@register
class ShouldApplyOnRule(Contract):
    """applicable iff detection rule, log source covered, and (rule list is 'any' or some listed reference resolves to this rule)"""
    id = "C11.SigmaFilter._should_apply_on_rule"
    target = "sigma.filters:SigmaFilter._should_apply_on_rule"
    props = ("C11",)
    cases = tuple((kind, rl) for kind in ("rule", "correlation") for rl in ("any", 0, 1, 2))
    assumed = ["SigmaCollection([rule])[ref] (lookup by id or name, contract C09.SigmaCollection.__getitem__) is abstract: it returns the rule or raises SigmaRuleNotFoundError",
               "SigmaLogSource.__contains__ contract; rule list of 0..2 references (unrolled)"]

    def setup(self, E):
        idx = E.index
        E.summaries["sigma.collection:SigmaCollection"] = lambda I, so, a, k: SObj("Collection", {"rules": a[0]})

        def s_contains(I, so, a, k):
            return Sym(covers(so, a[0]), "bool")
        E.summaries["sigma.rule.logsource:SigmaLogSource.__contains__"] = s_contains

    def args(self, I, case):
        kind, rl = case
        idx = I.E.index
        rule_t = z3.Const(I.ctx.fresh_name("rule"), z3.DeclareSort("Rule"))
        rule = SObj(idx.lookup("sigma.rule.rule:SigmaRule") if kind == "rule" else idx.lookup("sigma.correlations:SigmaCorrelationRule"), {"logsource": mk_logsource(I, "rule_ls")}, lazy=True)
        rule.ghost["term"] = rule_t
        refs = []
        if rl == "any":
            rules = I.fresh("rules_text", "str")
        else:
            for i in range(rl):
                refs.append(SObj("RuleReference", {"reference": I.fresh(f"ref{i}", "str")}))
            rules = refs

        def coll_getitem(I2, a, k):
            ref = mk_str(I2.force(a[1] if len(a) > 1 else a[0]))
            if not I2.ctx.branch(refers(ref, rule_t)):
                from pyvc.interp import PyRaise
                raise PyRaise(SObj(idx.lookup("sigma.exceptions:SigmaRuleNotFoundError"), {}, lazy=True))
            return rule
        I.E.external_getitem = {"Collection": coll_getitem}
        flt = SObj("GlobalFilter", {"rules": rules})
        me = SObj(idx.lookup("sigma.filters:SigmaFilter"), {"logsource": mk_logsource(I, "filter_ls"), "filter": flt}, lazy=True)
        return {"self": me, "args": [rule], "rule": rule, "rule_t": rule_t, "refs": refs, "rules": rules, "case": case}

    def post(self, I, inp, r):
        kind, rl = inp["case"]
        me, rule = inp["self"], inp["rule"]
        cov = covers(me.fields["logsource"], rule.fields["logsource"])
        if rl == "any":
            lower = z3.Function("str.lower", z3.StringSort(), z3.StringSort())(inp["rules"].t)
            listed = lower == z3.StringVal("any")
        else:
            listed = ops.mk_or([refers(x.fields["reference"].t, inp["rule_t"]) for x in inp["refs"]])
        spec = z3.And(z3.BoolVal(kind == "rule"), cov, listed)
        I.ctx.require(ops.mk_bool_term(ops.truth(I, r)) == spec, "applies iff detection rule and log source covered and (rules == any or a listed reference resolves to this rule)")

    def raises(self, I, inp, exc):
        # a rule list given as a string other than 'any' violates the loader's invariant (assert)
        kind, rl = inp["case"]
        I.ctx.require(rl == "any" and isinstance(exc, ExcValue) and exc.cname == "AssertionError", f"no exception (got {exc_name(exc)})", kind="SAFE")

    def frame_ok(self, I, inp, obj, name):
        return False


@register
class ApplyOnRuleNoop(Contract):
    """a filter that does not apply leaves the rule object untouched (nothing is written) and returns it"""
    id = "C11.SigmaFilter.apply_on_rule[not applicable]"
    target = "sigma.filters:SigmaFilter.apply_on_rule"
    props = ("C11",)
    cases = ("rule", "correlation")

    def setup(self, E):
        E.summaries["sigma.filters:SigmaFilter._should_apply_on_rule"] = lambda I, so, a, k: isinstance(a[0].cls, object) and a[0].ghost.get("applies", False)

    def args(self, I, case):
        idx = I.E.index
        rule = SObj(idx.lookup("sigma.rule.rule:SigmaRule") if case == "rule" else idx.lookup("sigma.correlations:SigmaCorrelationRule"), {}, lazy=True)
        rule.ghost["applies"] = False
        me = SObj(idx.lookup("sigma.filters:SigmaFilter"), {}, lazy=True)
        return {"self": me, "args": [rule], "rule": rule}

    def post(self, I, inp, r):
        I.ctx.require(r is inp["rule"], "returns the same rule object")

    def frame_ok(self, I, inp, obj, name):
        return False


@register
class CaptureFreedom(Lemma):
    """from the selector contract (C02): a rule pattern that does not start with '_' never selects an injected '_filt_...' detection, and a
    rewritten filter pattern (PREFIX_ + pattern) only selects names carrying this application's prefix - for EVERY prefix"""
    id = "C11.lemma.capture_freedom"
    props = ("C11",)
    assumed = ["a pattern that begins with a literal text (no '*' in it) only matches names beginning with that text (property of fullmatch)"]

    def goals(self):
        p, n, prefix, tok = z3.Strings("pattern name prefix token")
        us = z3.StringVal("_")
        selected = lambda pat, name: z3.And(glob(pat, name), z3.Or(z3.PrefixOf(us, pat), z3.Not(z3.PrefixOf(us, name))))
        injected = z3.PrefixOf(z3.Concat(z3.StringVal("_filt_"), prefix, us), n)
        lit_prefix_axiom = z3.Implies(z3.And(z3.Not(z3.Contains(z3.Concat(z3.StringVal("_filt_"), prefix, us), z3.StringVal("*"))), glob(z3.Concat(z3.StringVal("_filt_"), prefix, us, tok), n)),
                                      z3.PrefixOf(z3.Concat(z3.StringVal("_filt_"), prefix, us), n))
        return [("a rule pattern not starting with '_' selects no injected filter detection", [z3.Not(z3.PrefixOf(us, p)), injected], z3.Not(selected(p, n))),
                ("a rewritten filter pattern selects only names with this application's prefix", [lit_prefix_axiom, z3.Not(z3.Contains(prefix, z3.StringVal("*"))), selected(z3.Concat(z3.StringVal("_filt_"), prefix, us, tok), n)], injected)]
