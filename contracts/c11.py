"""C11 - a filter narrows exactly the rules it targets and nothing else (filters.py, logsource.py)."""
from __future__ import annotations
import z3
from pyvc.api import *
from pyvc.values import *
from pyvc import ops
from .c02 import glob


def optstr(I, name):
    return SOpt(z3.Bool(I.ctx.fresh_name(name + "_none")), I.fresh(name, "str"))


def mk_logsource(I, tag):
    L = I.E.index.lookup("sigma.rule.logsource:SigmaLogSource")
    f = {k: optstr(I, f"{tag}.{k}") for k in ("category", "product", "service", "definition")}      # the free-text definition never matters for covering
    f.update(source=None, custom_attributes=None)
    return SObj(L, f)


def opt_eq(a, b):
    """equality of two Optional[str] values as a z3 term"""
    return z3.Or(z3.And(a.is_none, b.is_none), z3.And(z3.Not(a.is_none), z3.Not(b.is_none), a.val.t == b.val.t))


def covers(f, r):
    return z3.And(*[z3.Or(f.fields[k].is_none, opt_eq(f.fields[k], r.fields[k])) for k in ("category", "product", "service")])


@register
class LogSourceContains(Contract):
    """`other in self`: the (less specific) log source self covers other iff every attribute self specifies is equal in other (A.6)"""
    id = "C11.SigmaLogSource.__contains__"
    target = "sigma.rule.logsource:SigmaLogSource.__contains__"
    props = ("C11", "C13")

    def args(self, I):
        a, b = mk_logsource(I, "self"), mk_logsource(I, "other")
        return {"self": a, "args": [b], "a": a, "b": b}

    def post(self, I, inp, r):
        I.ctx.require(ops.mk_bool_term(ops.truth(I, r)) == covers(inp["a"], inp["b"]), "covered iff category, product and service are each unspecified in self or equal in other")

    def frame_ok(self, I, inp, obj, name):
        return False


def refers(ref, rule_t):
    return z3.Function("reference_resolves_to", z3.StringSort(), z3.DeclareSort("Rule"), z3.BoolSort())(ref, rule_t)


@register
class ShouldApplyOnRule(Contract):
    """applicable iff detection rule, log source covered, and (rule list is 'any' or some listed reference resolves to this rule)"""
    id = "C11.SigmaFilter._should_apply_on_rule"
    target = "sigma.filters:SigmaFilter._should_apply_on_rule"
    props = ("C11",)
    cases = tuple((kind, rl) for kind in ("rule", "correlation") for rl in ("any", 0, 1, 2))
    assumed = ["SigmaCollection([rule])[ref] (lookup by id or name, contract C09.SigmaCollection.__getitem__) is abstract: it returns the rule or raises SigmaRuleNotFoundError",
               "SigmaLogSource.__contains__ contract; rule list of 0..2 references (unrolled)"]

    def setup(self, E):
        idx = E.index
        E.summaries["sigma.collection:SigmaCollection"] = lambda I, so, a, k: SObj("Collection", {"rules": a[0]})

        def s_contains(I, so, a, k):
            return Sym(covers(so, a[0]), "bool")
        E.summaries["sigma.rule.logsource:SigmaLogSource.__contains__"] = s_contains

    def args(self, I, case):
        kind, rl = case
        idx = I.E.index
        rule_t = z3.Const(I.ctx.fresh_name("rule"), z3.DeclareSort("Rule"))
        rule = SObj(idx.lookup("sigma.rule.rule:SigmaRule") if kind == "rule" else idx.lookup("sigma.correlations:SigmaCorrelationRule"), {"logsource": mk_logsource(I, "rule_ls")}, lazy=True)
        rule.ghost["term"] = rule_t
        refs = []
        if rl == "any":
            rules = I.fresh("rules_text", "str")
        else:
            for i in range(rl):
                refs.append(SObj("RuleReference", {"reference": I.fresh(f"ref{i}", "str")}))
            rules = refs

        def coll_getitem(I2, a, k):
            ref = mk_str(I2.force(a[1] if len(a) > 1 else a[0]))
            if not I2.ctx.branch(refers(ref, rule_t)):
                from pyvc.interp import PyRaise
                raise PyRaise(SObj(idx.lookup("sigma.exceptions:SigmaRuleNotFoundError"), {}, lazy=True))
            return rule
        I.E.external_getitem = {"Collection": coll_getitem}
        flt = SObj("GlobalFilter", {"rules": rules})
        me = SObj(idx.lookup("sigma.filters:SigmaFilter"), {"logsource": mk_logsource(I, "filter_ls"), "filter": flt}, lazy=True)
        return {"self": me, "args": [rule], "rule": rule, "rule_t": rule_t, "refs": refs, "rules": rules, "case": case}

    def post(self, I, inp, r):
        kind, rl = inp["case"]
        me, rule = inp["self"], inp["rule"]
        cov = covers(me.fields["logsource"], rule.fields["logsource"])
        if rl == "any":
            lower = z3.Function("str.lower", z3.StringSort(), z3.StringSort())(inp["rules"].t)
            listed = lower == z3.StringVal("any")
        else:
            listed = ops.mk_or([refers(x.fields["reference"].t, inp["rule_t"]) for x in inp["refs"]])
        spec = z3.And(z3.BoolVal(kind == "rule"), cov, listed)
        I.ctx.require(ops.mk_bool_term(ops.truth(I, r)) == spec, "applies iff detection rule and log source covered and (rules == any or a listed reference resolves to this rule)")

    def raises(self, I, inp, exc):
        # a rule list given as a string other than 'any' violates the loader's invariant (assert)
        kind, rl = inp["case"]
        I.ctx.require(rl == "any" and isinstance(exc, ExcValue) and exc.cname == "AssertionError", f"no exception (got {exc_name(exc)})", kind="SAFE")

    def frame_ok(self, I, inp, obj, name):
        return False


@register
class ApplyOnRuleNoop(Contract):
    """a filter that does not apply leaves the rule object untouched (nothing is written) and returns it"""
    id = "C11.SigmaFilter.apply_on_rule[not applicable]"
    target = "sigma.filters:SigmaFilter.apply_on_rule"
    props = ("C11",)
    cases = ("rule", "correlation")

    def setup(self, E):
        E.summaries["sigma.filters:SigmaFilter._should_apply_on_rule"] = lambda I, so, a, k: isinstance(a[0].cls, object) and a[0].ghost.get("applies", False)

    def args(self, I, case):
        idx = I.E.index
        rule = SObj(idx.lookup("sigma.rule.rule:SigmaRule") if case == "rule" else idx.lookup("sigma.correlations:SigmaCorrelationRule"), {}, lazy=True)
        rule.ghost["applies"] = False
        me = SObj(idx.lookup("sigma.filters:SigmaFilter"), {}, lazy=True)
        return {"self": me, "args": [rule], "rule": rule}

    def post(self, I, inp, r):
        I.ctx.require(r is inp["rule"], "returns the same rule object")

    def frame_ok(self, I, inp, obj, name):
        return False


@register
class CaptureFreedom(Lemma):
    """from the selector contract (C02): a rule pattern that does not start with '_' never selects an injected '_filt_...' detection, and a
    rewritten filter pattern (PREFIX_ + pattern) only selects names carrying this application's prefix - for EVERY prefix"""
    id = "C11.lemma.capture_freedom"
    props = ("C11",)
    assumed = ["a pattern that begins with a literal text (no '*' in it) only matches names beginning with that text (property of fullmatch)"]

    def goals(self):
        p, n, prefix, tok = z3.Strings("pattern name prefix token")
        us = z3.StringVal("_")
        selected = lambda pat, name: z3.And(glob(pat, name), z3.Or(z3.PrefixOf(us, pat), z3.Not(z3.PrefixOf(us, name))))
        injected = z3.PrefixOf(z3.Concat(z3.StringVal("_filt_"), prefix, us), n)
        lit_prefix_axiom = z3.Implies(z3.And(z3.Not(z3.Contains(z3.Concat(z3.StringVal("_filt_"), prefix, us), z3.StringVal("*"))), glob(z3.Concat(z3.StringVal("_filt_"), prefix, us, tok), n)),
                                      z3.PrefixOf(z3.Concat(z3.StringVal("_filt_"), prefix, us), n))
        return [("a rule pattern not starting with '_' selects no injected filter detection", [z3.Not(z3.PrefixOf(us, p)), injected], z3.Not(selected(p, n))),
                ("a rewritten filter pattern selects only names with this application's prefix", [lit_prefix_axiom, z3.Not(z3.Contains(prefix, z3.StringVal("*"))), selected(z3.Concat(z3.StringVal("_filt_"), prefix, us, tok), n)], injected)]


@register
class ApplyOnRuleApplicable(Contract):
    """a filter that applies: the rule gains the filter's detections under a fresh '_filt_<random>_' prefix and every condition becomes
    '(rule condition) and (rewritten filter condition)'; the inserted detections are the RULE'S OWN objects - nothing mutable is shared
    with the filter (which is applied to the next rule, too): not the detections, not the items, not their value lists, not their record of
    applied processing items"""
    id = "C11.SigmaFilter.apply_on_rule[applicable]"
    target = "sigma.filters:SigmaFilter.apply_on_rule"
    props = ("C11", "C15", "C08")
    assumed = ["random.choices yields some text; re.sub rewrites the filter condition (bounded stand-in C11.bounded.filters); SigmaDetections.__post_init__ (re-parse) abstract",
               "copy.copy / copy.deepcopy by their library contracts"]

    def setup(self, E):
        E.summaries["sigma.filters:SigmaFilter._should_apply_on_rule"] = lambda I, so, a, k: True
        E.externals["random.choices"] = lambda I, a, k: [I.fresh("rnd", "str")]
        E.externals["re.sub"] = lambda I, a, k: I.fresh("rewritten_filter_condition", "str")
        E.summaries["sigma.rule.detection:SigmaDetections.__post_init__"] = lambda I, so, a, k: so.ghost.__setitem__("reparsed", True)

    def args(self, I):
        idx = I.E.index
        D, IT = idx.lookup("sigma.rule.detection:SigmaDetection"), idx.lookup("sigma.rule.detection:SigmaDetectionItem")
        S = idx.lookup("sigma.types:SigmaString")

        def mkitem(f):
            v = SObj(S, {"s": [f], "original": f}, lazy=False)
            return SObj(IT, {"field": f, "modifiers": [], "value": [v], "original_value": [v], "applied_processing_items": set(), "parent": None, "source": None, "value_linking": None, "negated": False}, lazy=False)
        nested = SObj(D, {"detection_items": [mkitem("n")], "item_linking": None, "parent": None, "source": None}, lazy=False)
        fdet = SObj(D, {"detection_items": [mkitem("User"), nested], "item_linking": None, "parent": None, "source": None}, lazy=False)
        gf = SObj(idx.lookup("sigma.filters:SigmaGlobalFilter"), {"detections": {"adm": fdet}, "condition": ["not adm"]}, lazy=True)
        me = SObj(idx.lookup("sigma.filters:SigmaFilter"), {"filter": gf}, lazy=True)
        rdet = SObj(idx.lookup("sigma.rule.detection:SigmaDetections"), {"detections": {"sel": SObj(D, {"detection_items": [mkitem("f")], "item_linking": None, "parent": None, "source": None})}, "condition": ["sel", "not sel"]}, lazy=True)
        rule = SObj(idx.lookup("sigma.rule.rule:SigmaRule"), {"detection": rdet}, lazy=True)
        return {"self": me, "args": [rule], "rule": rule, "fdet": fdet, "rdet": rdet}

    def post(self, I, inp, r):
        c, rdet = I.ctx, inp["rule"].fields["detection"]
        c.require(r is inp["rule"], "the rule itself is returned")
        dets = rdet.fields["detections"]
        new = [(k, v) for k, v in dets.items() if k != "sel"]
        c.require(len(new) == 1 and "sel" in dets, "the rule keeps its detections and gains one per filter detection")
        if len(new) == 1:
            name, det = new[0]
            c.require(ops.kind_of(name) == "str", "under a generated name")
            mut_old = set()

            def collect(v, acc):
                if isinstance(v, SObj):
                    if id(v) in acc:
                        return
                    if isinstance(v.cls, ClassInfo) and v.cls.name in ("SigmaDetection", "SigmaDetectionItem"):
                        acc.add(id(v))
                    for x in v.fields.values():
                        collect(x, acc)
                elif isinstance(v, (list, set, dict)):
                    acc.add(id(v))
                    for x in (v.values() if isinstance(v, dict) else v):
                        collect(x, acc)
                elif isinstance(v, tuple):
                    for x in v:
                        collect(x, acc)
            collect(inp["fdet"], mut_old)
            mut_new = set()
            collect(det, mut_new)
            c.require(det is not inp["fdet"] and not (mut_old & mut_new), "no detection, detection item or mutable container (value list, modifiers, set of applied items) of the filter is shared with the rule", kind="FRAME")
            # structure is preserved
            ok = isinstance(det, SObj) and isinstance(det.fields.get("detection_items"), list) and len(det.fields["detection_items"]) == 2
            c.require(ok and det.fields["detection_items"][0].fields.get("field") == "User", "the copy has the filter detection's items")
        conds = rdet.fields["condition"]
        c.require(isinstance(conds, list) and len(conds) == 2 and all(ops.kind_of(x) == "str" for x in conds), "every condition of the rule is rewritten")
        if isinstance(conds, list) and len(conds) == 2:
            for old, cur in zip(("sel", "not sel"), conds):
                c.require(z3.And(z3.PrefixOf(z3.StringVal(f"({old}) and ("), mk_str(cur)), z3.SuffixOf(z3.StringVal(")"), mk_str(cur))), f"'({old}) and (<rewritten filter condition>)'")
        c.require(rdet.ghost.get("reparsed") is True, "the conditions are parsed again")

    def frame_ok(self, I, inp, obj, name):
        return obj is inp["rule"].fields["detection"] or name in ("parent",)


@register
class GlobalFilterRulesField(Contract):
    """SigmaGlobalFilter.from_dict, the 'rules' field: the word any (in any case) or an empty list mean every rule; a single string is ONE
    reference to exactly that name or id as written; a list is one reference per entry as written; anything else, or no field, is an error"""
    id = "C11.SigmaGlobalFilter.from_dict[rules]"
    target = "sigma.filters:SigmaGlobalFilter.from_dict"
    props = ("C11", "C07")
    cases = ("any", "ANY", "scalar", "list2", "empty_list", "number", "missing")
    assumed = ["SigmaDetection.from_definition and the class constructor are abstract"]

    def setup(self, E):
        E.summaries["sigma.filters:SigmaGlobalFilter"] = lambda I, so, a, k: SObj("Built", {"a": list(a), "k": dict(k)})
        E.summaries["sigma.rule.detection:SigmaDetection.from_definition"] = lambda I, so, a, k: SObj("Det", {"of": a[0]})
        E.summaries["sigma.correlations:SigmaRuleReference"] = lambda I, so, a, k: SObj("Ref", {"reference": a[0]})

    def args(self, I, case):
        name, n2 = I.fresh("rule_name", "str"), I.fresh("rule_name2", "str")
        low = z3.Function("str.lower", z3.StringSort(), z3.StringSort())
        I.ctx.assume(low(name.t) != z3.StringVal("any"))
        d = {"sel": {"f": 1}, "condition": "not sel"}
        val = {"any": "any", "ANY": "ANY", "scalar": name, "list2": [name, n2], "empty_list": [], "number": 5}.get(case)
        if case != "missing":
            d["rules"] = val
        return {"self": ClassRef(I.E.index.lookup("sigma.filters:SigmaGlobalFilter")), "args": [d], "name": name, "n2": n2, "case": case}

    def post(self, I, inp, r):
        case = inp["case"]
        c = I.ctx
        c.require(case not in ("number", "missing"), "a rules field of another type / no rules field is rejected")
        ok = isinstance(r, SObj) and r.cls == "Built"
        c.require(ok, "a filter object is built")
        if ok:
            rules = r.fields["k"].get("rules")
            rules = I.force(rules) if not isinstance(rules, (list, str)) else rules
            if case in ("any", "ANY", "empty_list"):
                c.require(rules == "any", "every rule")
            elif case == "scalar":
                c.require(isinstance(rules, list) and len(rules) == 1 and isinstance(rules[0], SObj) and rules[0].fields["reference"] is inp["name"], "one reference to the name as written (case preserved)")
            else:
                c.require(isinstance(rules, list) and len(rules) == 2 and rules[0].fields["reference"] is inp["name"] and rules[1].fields["reference"] is inp["n2"], "one reference per entry as written, in order")
            c.require(set(r.fields["k"].get("detections", {})) == {"sel"}, "condition and rules are not detections")

    def raises(self, I, inp, exc):
        I.ctx.require(exc_is(I, exc, "SigmaFilterRuleReferenceError") and inp["case"] in ("number", "missing"), f"SigmaFilterRuleReferenceError exactly for a wrong type / missing field (got {exc_name(exc)})", kind="SAFE")

    def frame_ok(self, I, inp, obj, name):
        return False


@register
class CollectionApplyFilters(Contract):
    """SigmaCollection.apply_filters: every detection rule of the collection - each one, whatever its id or name, also rules without id and
    rules that share an id - is passed through EVERY filter in order (the result of one filter is the input of the next); correlation
    rules are left alone; the rule list keeps its length and order"""
    id = "C11.SigmaCollection.apply_filters"
    target = "sigma.collection:SigmaCollection.apply_filters"
    props = ("C11",)
    cases = tuple((nr, nf) for nr in (0, 1, 3) for nf in (0, 1, 2))

    def args(self, I, case):
        nr, nf = case
        idx = I.E.index
        R, C = idx.lookup("sigma.rule.rule:SigmaRule"), idx.lookup("sigma.correlations:SigmaCorrelationRule")
        trace = []
        shared_id = SObj("UUID", {})
        rules = []
        for i in range(nr):
            r = SObj(R, {"id": None if i == 0 else shared_id, "name": None}, lazy=True)     # rules without id, rules sharing an id
            r.ghost["tag"] = f"r{i}"
            rules.append(r)
        corr = SObj(C, {}, lazy=True)
        if nr:
            rules.insert(1, corr)

        def mkf(j):
            def apply(I2, a, k):
                src = a[0]
                out = SObj(R, {"id": src.fields.get("id"), "name": None}, lazy=True)
                out.ghost["tag"] = src.ghost["tag"] + f">f{j}"
                trace.append((j, src.ghost["tag"]))
                return out
            return SObj("Filter", {"apply_on_rule": NativeFn("apply_on_rule", apply)})
        filters = [mkf(j) for j in range(nf)]
        me = SObj(idx.lookup("sigma.collection:SigmaCollection"), {"rules": list(rules)}, lazy=True)
        return {"self": me, "args": [filters], "rules": rules, "corr": corr, "trace": trace, "case": case}

    def post(self, I, inp, r):
        nr, nf = inp["case"]
        c = I.ctx
        got = inp["self"].fields["rules"]
        got = I.force(got) if not isinstance(got, list) else got
        ok = isinstance(got, list) and len(got) == len(inp["rules"])
        c.require(ok, "the rule list keeps its length")
        if not ok:
            return
        for before, after in zip(inp["rules"], got):
            if before is inp["corr"]:
                c.require(after is before, "a correlation rule is left alone")
            else:
                want = before.ghost["tag"] + "".join(f">f{j}" for j in range(nf))
                c.require(isinstance(after, SObj) and after.ghost.get("tag") == want, f"rule {before.ghost['tag']} went through every filter in order ({want}); got {getattr(after, 'ghost', {}).get('tag')}")
        c.require(len(inp["trace"]) == nr * nf, "each (rule, filter) pair exactly once")

    def frame_ok(self, I, inp, obj, name):
        return obj is inp["self"] and name == "rules"


@register
class LogSourceValues(Contract):
    """SigmaLogSource.from_dict: category / product / service / definition are the values the document gives - a value that is present is
    never turned into "not set" (an unset attribute of a filter's log source covers every rule; an empty text covers none that names one)"""
    id = "C11.SigmaLogSource.from_dict[values]"
    target = "sigma.rule.logsource:SigmaLogSource.from_dict"
    props = ("C11", "C06", "C13")
    cases = ("all four", "product only", "with custom attribute")

    def setup(self, E):
        E._c11_ls = []

        def hook(I, cinfo, args, kwargs):
            from pyvc.interp import UNBOUND
            if cinfo.name == "SigmaLogSource":
                E._c11_ls.append((list(args), dict(kwargs)))
                return SObj("NewLogSource", {"a": list(args), "k": dict(kwargs)})
            return UNBOUND
        E.instantiate_hook = hook

    def args(self, I, case):
        del I.E._c11_ls[:]
        vals = {k: I.fresh(k, "str") for k in (("category", "product", "service", "definition") if case != "product only" else ("product",))}      # arbitrary texts, the empty one included
        d = dict(vals)
        if case == "with custom attribute":
            d["zone"] = I.fresh("zone", "str")
        return {"self": ClassRef(I.E.index.lookup("sigma.rule.logsource:SigmaLogSource")), "args": [d, None], "vals": vals, "case": case}

    def post(self, I, inp, r):
        c = I.ctx
        ok = len(I.E._c11_ls) == 1
        c.require(ok, "one log source object is built")
        if not ok:
            return
        a, k = I.E._c11_ls[0]
        names = ["category", "product", "service", "definition"]
        got = {n: (a[i] if i < len(a) else k.get(n)) for i, n in enumerate(names)}
        for n in names:
            want = inp["vals"].get(n)
            g = I.force(got[n]) if got[n] is not None else None
            c.require((g is None) if want is None else (isinstance(g, Sym) and z3.eq(g.t, want.t)), f"{n}: the value given by the document ({'absent -> None' if want is None else 'present, whatever its text -> that text'})")

    def frame_ok(self, I, inp, obj, name):
        return False

    def candidates(self):
        return iter(({"service": ""}, {"product": ""}, {"category": ""}))

    def replay(self, values):
        from sigma.rule import SigmaLogSource
        for n in ("category", "product", "service", "definition"):
            if n in values:
                ls = SigmaLogSource.from_dict({"product": "windows", "category": "c", n: values[n]})
                if getattr(ls, n) != values[n]:
                    return f"log source with {n} = {values[n]!r} loads with {n} = {getattr(ls, n)!r}"
        return None
