"""C02 bounded stand-in (decisive for the pyparsing grammar): every condition expression up to a size bound, over tricky detection names,
evaluated on all truth assignments against an independent recursive-descent reader of the Sigma condition grammar."""
from __future__ import annotations
import itertools, re, fnmatch
from pyvc.api import *

NAMES = ["sel", "notepad", "android", "organic", "all_x", "anyx", "ofx", "them1", "x-1", "_u", "sel_1", "sel_2", "n1", "not_wanted", "not-x", "and_x", "or-1", "_wanted", "1-x", "of_1", "rules", "all", "any", "1"]


def tokenize(s):
    return re.findall(r"\(|\)|[A-Za-z0-9_*\-]+", s)


class Ref:
    """reference reader: NOT > AND > OR, binary operators left associative, selectors, names are whole words"""

    def __init__(self, toks, names):
        self.t, self.i, self.names = toks, 0, names

    def peek(self):
        return self.t[self.i] if self.i < len(self.t) else None

    def eat(self):
        self.i += 1
        return self.t[self.i - 1]

    def parse_or(self):
        l = self.parse_and()
        while self.peek() == "or":
            self.eat()
            r = self.parse_and()
            l = ("or", l, r)
        return l

    def parse_and(self):
        l = self.parse_not()
        while self.peek() == "and":
            self.eat()
            r = self.parse_not()
            l = ("and", l, r)
        return l

    def parse_not(self):
        if self.peek() == "not":
            self.eat()
            return ("not", self.parse_not())
        return self.parse_atom()

    def parse_atom(self):
        t = self.eat()
        if t == "(":
            e = self.parse_or()
            assert self.eat() == ")"
            return e
        if t in ("1", "any", "all") and self.peek() == "of":
            self.eat()
            pat = self.eat()
            glob = "*" if pat == "them" else pat
            ms = [n for n in self.names if fnmatch.fnmatchcase(n, glob) and (pat.startswith("_") or not n.startswith("_"))]
            return ("sel", "and" if t == "all" else "or", ms)
        return ("id", t)


def ev_ref(e, env):
    k = e[0]
    if k == "id":
        return env[e[1]]
    # a selector that matches nothing is "no condition" (None): it vanishes from AND / OR, and NOT of it vanishes too (reported by the
    # dangling-condition validator, C19)
    if k == "not":
        v = ev_ref(e[1], env)
        return None if v is None else (not v)
    if k in ("and", "or"):
        vs = [v for v in (ev_ref(e[1], env), ev_ref(e[2], env)) if v is not None]
        if not vs:
            return None
        return all(vs) if k == "and" else any(vs)
    vals = [env[n] for n in e[2]]
    if not vals:
        return None
    return all(vals) if e[1] == "and" else any(vals)


def ref_names(e):
    """the detection names a reference tree depends on"""
    if e[0] == "id":
        return {e[1]}
    if e[0] == "sel":
        return set(e[2])
    return set().union(*(ref_names(x) for x in e[1:]))


def ev_tree(c, env):
    """evaluate a postprocessed pySigma condition tree: leaves are field==marker conditions named by the detection"""
    from sigma.conditions import ConditionOR, ConditionAND, ConditionNOT, ConditionFieldEqualsValueExpression
    if c is None:
        return None
    if isinstance(c, ConditionFieldEqualsValueExpression):
        return env[str(c.value)]
    vals = [ev_tree(a, env) for a in c.args]
    vals = [v for v in vals if v is not None]
    if isinstance(c, ConditionNOT):
        return None if not vals else (not vals[0])
    if not vals:
        return None
    return all(vals) if isinstance(c, ConditionAND) else any(vals)


def base_shapes(n):
    """all expression shapes with n operands (operators and/or, optional not on operands and groups, explicit parentheses)"""
    if n == 1:
        yield "{}"
        yield "not {}"
        return
    for k in range(1, n):
        for l in base_shapes(k):
            for r in base_shapes(n - k):
                for op in ("and", "or"):
                    yield f"{l} {op} {r}"
                    if k > 1:
                        yield f"({l}) {op} {r}"
                    if n - k > 1:
                        yield f"{l} {op} ({r})"
                        yield f"{l} {op} not ({r})"


def shapes(n):
    """base shapes plus repeated negation: on the whole expression, on the first and on the last operand"""
    yield from base_shapes(n)
    # a single name in parentheses (each also spelled without blanks around the parentheses below: not(x), (x)or(y))
    yield from {1: ("({})", "not ({})", "not (({}))"), 2: ("({}) and ({})", "not ({}) or ({})", "({}) or not ({})", "{} and ({})", "({}) or {}"), 3: ("({}) or ({}) and not ({})", "not ({}) and ({} or ({}))")}.get(n, ())
    if n == 1:
        yield from ("not not {}", "not (not {})", "not not not {}")
        return
    for sh in base_shapes(n):
        yield f"not not ({sh})"
    for sh in base_shapes(n - 1):
        for op in ("and", "or"):
            yield f"not not {{}} {op} {sh}"
            yield f"{sh} {op} not not {{}}"
            yield f"{sh} {op} not (not {{}})"


OPERANDS = NAMES + ["1 of sel*", "all of sel_*", "any of *1", "1 of them", "all of them", "1 of _*", "1 of n*", "all of *x*", "1 of nomatch*", "1 of sel_*_1", "1 of not*", "all of *-*", "1 of *_u", "all of *_wanted", "1 of *_1", "any of *_*"]


@register
class C02Bounded(Bounded):
    id = "C02.bounded.grammar"
    props = ("C02",)

    def run(self, tier, seed):
        from pyvc.api import fork_map
        nmax = 3 if tier == "quick" else 4
        work = [(n, sh) for n in range(1, nmax + 1) for sh in sorted(set(shapes(n)))]
        chunks = [work[i::16] for i in range(16)]
        outs = fork_map(lambda ch: self.run_chunk(tier, seed, ch), chunks)
        ev = sum(o["ev"] for o in outs)
        nontriv = sum(o["nontriv"] for o in outs)
        seen, fails, samples, firsts = {}, [], [], {}
        for o in outs:
            for k, v in o["seen"].items():
                seen[k] = seen.get(k, 0) + v
            for k, f in o["firsts"].items():
                if k not in firsts or f["input"] < firsts[k]["input"]:
                    firsts[k] = f
            samples += o["samples"]
        fails = [firsts[k] for k in sorted(firsts)]
        samples = sorted(samples, key=lambda x: x["expression"])[:4]
        return {"evaluations": ev, "distinct_nontrivial": nontriv, "failures": fails, "failure_counts": seen,
                "bound": f"all expression shapes with <= {nmax} operands (incl. repeated negation) x operands from {len(OPERANDS)} (names incl. keyword-prefixed, digit, dash, underscore; selectors with leading / trailing / inner wildcards, them), all truth assignments of the names the expression depends on (<= 8 names; beyond: all-false, all-true, one-hot, one-cold and 64 random assignments)",
                "rule": "distinct expressions; non-trivial = accepted by the parser", "samples": samples, "exhaustive": False}

    def run_chunk(self, tier, seed, work):
        import random
        from sigma.rule import SigmaDetections, SigmaDetection
        from sigma.conditions import SigmaCondition
        from sigma.exceptions import SigmaError
        import sigma.collection, sigma.filters, sigma.correlations       # everything a real process has loaded (class-level tables of other document kinds included)
        dets = SigmaDetections.from_dict({**{n: {"f": n} for n in NAMES}, "condition": "sel"})      # the detection section as a rule document carries it
        if sorted(dets.detections) != sorted(NAMES):
            return {"ev": 1, "nontriv": 1, "seen": {"names": 1}, "firsts": {"names": {"text": f"a detection section with the names {sorted(NAMES)} is loaded with the detections {sorted(dets.detections)}", "input": "names"}}, "samples": []}
        operands = OPERANDS
        ev = nontriv = 0
        seen, firsts, samples = {}, {}, []
        if True:
            for n, sh in work:
                rnd = random.Random(f"{seed}:{sh}")
                combos = list(itertools.product(operands, repeat=n))
                cap = 60 if tier == "quick" else (400 if n <= 3 else 100)
                if len(combos) > cap:
                    combos = rnd.sample(combos, cap)
                spellings = []
                for ops_ in combos:
                    e0 = sh.format(*ops_)
                    spellings.append(e0)
                    if "(" in e0:       # the same expression without blanks around the parentheses: a parenthesis separates tokens too
                        spellings.append(e0.replace(" (", "(").replace("( ", "(").replace(" )", ")").replace(") ", ")"))
                        spellings.append(e0.replace("(", "( ").replace(")", " )").replace("  ", " "))
                for expr in spellings:
                    ev += 1
                    try:
                        ref = Ref(tokenize(expr), NAMES).parse_or()
                    except Exception:
                        continue
                    try:
                        tree = SigmaCondition(expr, dets).parse()
                    except SigmaError as e:
                        kind = "reject:" + ("not-prefix" if re.search(r"\bnot[a-z]", expr) else "other")
                        seen[kind] = seen.get(kind, 0) + 1
                        if kind not in firsts or expr < firsts[kind]["input"]:
                            firsts[kind] = ({"text": f"condition {expr!r} is rejected: {e}", "input": expr})
                        continue
                    nontriv += 1
                    used = sorted(ref_names(ref))
                    if len(used) <= 8:
                        assignments = (dict(zip(used, bits)) for bits in itertools.product((False, True), repeat=len(used)))
                    else:       # 'them' and wide patterns: the all-false / all-true / one-hot / one-cold assignments and 64 random ones
                        fixed = [{n: False for n in used}, {n: True for n in used}] + [{n: n == m for n in used} for m in used] + [{n: n != m for n in used} for m in used]
                        assignments = itertools.chain(fixed, ({n: rnd.random() < 0.5 for n in used} for _ in range(64)))
                    bad = None
                    for part in assignments:
                        env = {n: False for n in NAMES}
                        env.update(part)
                        if ev_tree(tree, env) != ev_ref(ref, env):
                            bad = env
                            break
                    if bad is not None:
                        kind = "value:" + ("not-prefix" if re.search(r"\bnot[a-z]", expr) else "other")
                        seen[kind] = seen.get(kind, 0) + 1
                        if kind not in firsts or expr < firsts[kind]["input"]:
                            firsts[kind] = ({"text": f"condition {expr!r} evaluates to {ev_tree(tree, bad)} instead of {ev_ref(ref, bad)} under {[k for k, v in bad.items() if v]}", "input": expr})
                    elif len(samples) < 4 and n == 3:
                        samples.append({"expression": expr, "reference": str(ref)[:160]})
        return {"ev": ev, "nontriv": nontriv, "seen": seen, "firsts": firsts, "samples": samples[:4]}
