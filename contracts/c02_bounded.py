"""C02 bounded stand-in (decisive for the pyparsing grammar): every condition expression up to a size bound, over tricky detection names,
evaluated on all truth assignments against an independent recursive-descent reader of the Sigma condition grammar."""
from __future__ import annotations
import itertools, re, fnmatch
from pyvc.api import *

NAMES = ["sel", "notepad", "android", "organic", "all_x", "anyx", "ofx", "them1", "x-1", "_u", "sel_1", "sel_2", "n1"]


def tokenize(s):
    return re.findall(r"\(|\)|[A-Za-z0-9_*\-]+", s)


class Ref:
    """reference reader: NOT > AND > OR, binary operators left associative, selectors, names are whole words"""

    def __init__(self, toks, names):
        self.t, self.i, self.names = toks, 0, names

    def peek(self):
        return self.t[self.i] if self.i < len(self.t) else None

    def eat(self):
        self.i += 1
        return self.t[self.i - 1]

    def parse_or(self):
        l = self.parse_and()
        while self.peek() == "or":
            self.eat()
            r = self.parse_and()
            l = ("or", l, r)
        return l

    def parse_and(self):
        l = self.parse_not()
        while self.peek() == "and":
            self.eat()
            r = self.parse_not()
            l = ("and", l, r)
        return l

    def parse_not(self):
        if self.peek() == "not":
            self.eat()
            return ("not", self.parse_not())
        return self.parse_atom()

    def parse_atom(self):
        t = self.eat()
        if t == "(":
            e = self.parse_or()
            assert self.eat() == ")"
            return e
        if t in ("1", "any", "all") and self.peek() == "of":
            self.eat()
            pat = self.eat()
            glob = "*" if pat == "them" else pat
            ms = [n for n in self.names if fnmatch.fnmatchcase(n, glob) and (pat.startswith("_") or not n.startswith("_"))]
            return ("sel", "and" if t == "all" else "or", ms)
        return ("id", t)


def ev_ref(e, env):
    k = e[0]
    if k == "id":
        return env[e[1]]
    # a selector that matches nothing is "no condition" (None): it vanishes from AND / OR, and NOT of it vanishes too (reported by the
    # dangling-condition validator, C19)
    if k == "not":
        v = ev_ref(e[1], env)
        return None if v is None else (not v)
    if k in ("and", "or"):
        vs = [v for v in (ev_ref(e[1], env), ev_ref(e[2], env)) if v is not None]
        if not vs:
            return None
        return all(vs) if k == "and" else any(vs)
    vals = [env[n] for n in e[2]]
    if not vals:
        return None
    return all(vals) if e[1] == "and" else any(vals)


def ev_tree(c, env):
    """evaluate a postprocessed pySigma condition tree: leaves are field==marker conditions named by the detection"""
    from sigma.conditions import ConditionOR, ConditionAND, ConditionNOT, ConditionFieldEqualsValueExpression
    if c is None:
        return None
    if isinstance(c, ConditionFieldEqualsValueExpression):
        return env[str(c.value)]
    vals = [ev_tree(a, env) for a in c.args]
    vals = [v for v in vals if v is not None]
    if isinstance(c, ConditionNOT):
        return None if not vals else (not vals[0])
    if not vals:
        return None
    return all(vals) if isinstance(c, ConditionAND) else any(vals)


def shapes(n):
    """all expression shapes with n operands (operators and/or, optional not on operands and groups, explicit parentheses)"""
    if n == 1:
        yield "{}"
        yield "not {}"
        return
    for k in range(1, n):
        for l in shapes(k):
            for r in shapes(n - k):
                for op in ("and", "or"):
                    yield f"{l} {op} {r}"
                    if k > 1:
                        yield f"({l}) {op} {r}"
                    if n - k > 1:
                        yield f"{l} {op} ({r})"
                        yield f"{l} {op} not ({r})"


@register
class C02Bounded(Bounded):
    id = "C02.bounded.grammar"
    props = ("C02",)

    def run(self, tier, seed):
        import random
        from sigma.rule import SigmaDetections, SigmaDetection
        from sigma.conditions import SigmaCondition
        from sigma.exceptions import SigmaError
        rnd = random.Random(seed)
        dets = SigmaDetections({n: SigmaDetection.from_definition({"f": n}) for n in NAMES}, ["sel"])
        operands = NAMES + ["1 of sel*", "all of sel_*", "any of *1", "1 of them", "all of them", "1 of _*", "1 of n*", "all of *x*", "1 of nomatch*", "1 of sel_*_1"]
        nmax = 3 if tier == "quick" else 4
        ev = nontriv = 0
        seen, fails, samples = {}, [], []
        envs = None
        for n in range(1, nmax + 1):
            shp = sorted(set(shapes(n)))
            for sh in shp:
                combos = list(itertools.product(operands, repeat=n))
                if len(combos) > (60 if tier == "quick" else 400):
                    combos = rnd.sample(combos, 60 if tier == "quick" else 400)
                for ops_ in combos:
                    expr = sh.format(*ops_)
                    ev += 1
                    try:
                        ref = Ref(tokenize(expr), NAMES).parse_or()
                    except Exception:
                        continue
                    try:
                        tree = SigmaCondition(expr, dets).parse()
                    except SigmaError as e:
                        kind = "reject:" + ("not-prefix" if re.search(r"\bnot[a-z]", expr) else "other")
                        seen[kind] = seen.get(kind, 0) + 1
                        if seen[kind] == 1:
                            fails.append({"text": ("KNOWN-D4 " if kind.endswith("not-prefix") else "") + f"condition {expr!r} is rejected: {e}", "input": expr})
                        continue
                    nontriv += 1
                    used = sorted(set(re.findall(r"[A-Za-z0-9_\-]+", expr)) & set(NAMES)) or NAMES[:1]
                    bad = None
                    for bits in itertools.islice(itertools.product((False, True), repeat=len(NAMES)), 0, None, max(1, 2 ** len(NAMES) // 64)):
                        env = dict(zip(NAMES, bits))
                        if ev_tree(tree, env) != ev_ref(ref, env):
                            bad = env
                            break
                    if bad is not None:
                        kind = "value:" + ("not-prefix" if re.search(r"\bnot[a-z]", expr) else "other")
                        seen[kind] = seen.get(kind, 0) + 1
                        if seen[kind] == 1:
                            fails.append({"text": ("KNOWN-D4 " if kind.endswith("not-prefix") else "") + f"condition {expr!r} evaluates to {ev_tree(tree, bad)} instead of {ev_ref(ref, bad)} under {[k for k, v in bad.items() if v]}", "input": expr})
                    elif len(samples) < 4 and n == 3:
                        samples.append({"expression": expr, "reference": str(ref)[:160]})
        return {"evaluations": ev, "distinct_nontrivial": nontriv, "failures": fails, "failure_counts": seen,
                "bound": f"all expression shapes with <= {nmax} operands x operands from {len(operands)} (names incl. keyword-prefixed, digit, dash, underscore; selectors with leading / trailing / inner wildcards, them), 64 truth assignments each",
                "rule": "distinct expressions; non-trivial = accepted by the parser", "samples": samples, "exhaustive": False}
