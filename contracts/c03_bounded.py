"""C03 bounded stand-in: the real SigmaDetectionItem.from_mapping for all modifier chains up to a length bound, against an independent
specification of every modifier written from the Sigma specification."""
from __future__ import annotations
import itertools, re as _re, ipaddress
from base64 import b64encode
from pyvc.api import *
from . import model as M
from .c04 import b64offset_oracle

ERR = "error"
DASHES = ["-", "/", "–", "—", "―"]


def S(atoms):
    return ("str", tuple(atoms))


def text(atoms):
    return "".join(a[1] if isinstance(a, tuple) and a[0] == "L" else "*" if a == "WM" else "?" if a == "WS" else f"%{a[1]}%" for a in atoms)


def has_special(atoms):
    return any(a in ("WM", "WS") for a in atoms)


def lit(s):
    return [("L", c) for c in s]


def spec_sigma_type(v):
    if isinstance(v, bool):
        return ("bool", v)
    if isinstance(v, (int, float)):
        return ("num", v)
    if isinstance(v, str):
        return S(M.sp_native(v))
    if v is None:
        return ("null",)
    raise ValueError


def expand_atoms(atoms):
    """unescaped %name% -> placeholder; \\% -> %   (on the literal text between wildcards)"""
    out, buf = [], ""

    def flush():
        nonlocal buf
        # buf is literal text: find unescaped %name%
        i, res, acc = 0, [], ""
        for m in _re.finditer(r"(?<!\\)%([^%]+)%", buf):
            acc = buf[i:m.start()].replace("\\%", "%")
            res += lit(acc) + [("PH", m.group(1))]
            i = m.end()
        res += lit(buf[i:].replace("\\%", "%"))
        buf = ""
        return res
    for a in atoms:
        if isinstance(a, tuple) and a[0] == "L":
            buf += a[1]
        else:
            out += flush() + [a]
    return out + flush()


def windash(atoms):
    """every dash variant of each parameter-position dash (dash or slash preceded by a non-word character or the start and followed by a word character)"""
    positions = []
    for i, a in enumerate(atoms):
        if isinstance(a, tuple) and a[0] == "L" and a[1] in "-/":
            prev = atoms[i - 1] if i > 0 else None
            nxt = atoms[i + 1] if i + 1 < len(atoms) else None
            prev_word = isinstance(prev, tuple) and prev[0] == "L" and _re.match(r"\w", prev[1]) is not None
            next_word = isinstance(nxt, tuple) and nxt[0] == "L" and _re.match(r"\w", nxt[1]) is not None
            if not prev_word and next_word:
                positions.append(i)
    outs = []
    for combo in itertools.product(DASHES, repeat=len(positions)):
        b = list(atoms)
        for p, d in zip(positions, combo):
            b[p] = ("L", d)
        outs.append(S(b))
    return outs


def spec_modifier(mod, v, applied, field):
    """value -> list of values, or ERR"""
    k = v[0]
    cased = k == "cased"
    if cased:                      # a cased string is a string: string modifiers apply; those that build on the value keep the type
        k, v = "str", ("str",) + tuple(v[1:])
    keep = (lambda a: ("cased", tuple(a))) if cased else S
    if k == "tspart":              # a timestamp part is a number
        k, v = "num", ("num", v[2], v)
    if k == "expansion":
        res = []
        for x in v[1]:
            r = spec_modifier(mod, x, applied, field)
            if r == ERR:
                return ERR
            res += r
        return [("expansion", tuple(res))]
    if mod in ("contains", "startswith", "endswith"):
        front, back = mod in ("contains", "endswith"), mod in ("contains", "startswith")
        if k == "str":
            a = list(v[1])
            if front and a[:1] != ["WM"]:
                a = ["WM"] + a
            if back and a[-1:] != ["WM"]:
                a = a + ["WM"]
            return [keep(a)]
        if k == "re":
            t = v[1]
            if front and not (t.startswith(".*") or t.startswith("^")):
                t = ".*" + t
            if back and not (v[1].endswith(".*") or v[1].endswith("$")):
                t = t + ".*"
            return [("re", t, v[2])]
        if k == "fieldref":
            # field reference flags: starts_with = "the field's value starts with the referenced field's value", ends_with likewise
            return [("fieldref", v[1], v[2] or (mod in ("contains", "startswith")), v[3] or (mod in ("contains", "endswith")))]
        return ERR
    if k != "str" and mod in ("base64", "base64offset", "wide", "utf16le", "utf16", "utf16be", "windash", "cased", "cidr", "fieldref", "re"):
        return ERR
    if mod == "base64":
        if has_special(v[1]):
            return ERR
        return [S(lit(b64encode(text(v[1]).encode()).decode()))]
    if mod == "base64offset":
        if has_special(v[1]):
            return ERR
        return [("expansion", tuple(S(lit(x)) for x in b64offset_oracle(text(v[1]).encode())))]
    if mod in ("wide", "utf16le", "utf16be", "utf16"):
        out = []
        for a in v[1]:
            if isinstance(a, tuple) and a[0] == "L":
                try:
                    out += lit(a[1].encode("utf-16be" if mod == "utf16be" else "utf-16le").decode("utf-8"))
                except UnicodeDecodeError:
                    return ERR
            else:
                out.append(a)
        return [S(([("L", "﻿")] if mod == "utf16" else []) + out)]
    if mod == "windash":
        w = windash(list(v[1]))
        return [("expansion", tuple(w if len(w) > 1 else [keep(v[1])]))]      # dash variants are plain strings; a value without parameter dash is passed through
    if mod == "cased":
        return [("cased", tuple(v[1]))]
    if mod == "cidr":
        if applied:
            return ERR
        try:
            ipaddress.ip_network(v[2] if len(v) > 2 else text_plain(v[1]))
        except ValueError:
            return ERR
        return [("cidr", text_plain(v[1]))]
    if mod == "fieldref":
        if has_special(v[1]):
            return ERR
        return [("fieldref", text(v[1]), False, False)]
    if mod == "re":
        if applied:
            return ERR
        if len(v) <= 2:
            return ERR
        try:
            _re.compile(v[2])
        except _re.error:
            return ERR
        return [("re", v[2], frozenset())]
    if mod in ("i", "ignorecase", "m", "multiline", "s", "dotall"):
        if k != "re":
            return ERR
        return [("re", v[1], v[2] | {{"i": "IGNORECASE", "m": "MULTILINE", "s": "DOTALL", "d": "DOTALL"}[mod[0]]})]
    if mod == "expand":
        if k == "str":
            return [keep(expand_atoms(list(v[1])))]
        if k == "re":
            return [("re", v[1].replace("\\%", "%"), v[2])]       # placeholders inside regular expressions are compared by text; \% is unescaped
        return ERR
    if mod in ("lt", "lte", "gt", "gte"):
        return [("cmp", v[2] if len(v) > 2 else ("num", v[1]), mod.upper())] if k == "num" else ERR
    if mod in ("minute", "hour", "day", "week", "month", "year"):
        return [("tspart", mod.upper(), int(v[1]))] if k == "num" else ERR
    if mod == "exists":
        if k != "bool" or applied or field is None:
            return ERR
        return [("exists", v[1])]
    raise KeyError(mod)


def text_plain(atoms):
    """plain (escaped) text as str() of the value gives it - used where the library passes str(val) on"""
    return "".join(("\\" + a[1] if a[1] in "*?" else a[1]) if isinstance(a, tuple) and a[0] == "L" else "*" if a == "WM" else "?" if a == "WS" else f"%{a[1]}%" for a in atoms)


def spec_item(field, chain, raw):
    vals = raw if isinstance(raw, list) else [raw]
    linking, negated = "OR", False
    try:
        cur = []
        for x in vals:
            if "re" in chain:
                if not isinstance(x, str):
                    return ERR
                cur.append(("str", tuple(lit(x)), x))       # regular expressions take the text unparsed
            else:
                cur.append(spec_sigma_type(x))
    except ValueError:
        return ERR
    applied = []
    for mod in chain:
        if mod == "all":
            linking = "AND"
        elif mod == "neq":
            negated = True
        else:
            nxt = []
            for v in cur:
                r = spec_modifier(mod, v, applied, field)
                if r == ERR:
                    return ERR
                nxt += r
            cur = nxt
        applied.append(mod)
    return (tuple(x[:2] if x[0] == "str" else x for x in cur), linking, negated)


def real_value(v):
    from sigma import types as T
    if isinstance(v, T.SigmaExpansion):
        return ("expansion", tuple(real_value(x) for x in v.values))
    if isinstance(v, T.SigmaCasedString):
        return ("cased", tuple(M.atoms_native(v.s)))
    if isinstance(v, T.SigmaString):
        return ("str", tuple(M.atoms_native(v.s)))
    if isinstance(v, T.SigmaRegularExpression):
        return ("re", v.regexp.to_plain_regex() if hasattr(v.regexp, "to_plain_regex") else str(v.regexp), frozenset(f.name for f in v.flags))
    if isinstance(v, T.SigmaCIDRExpression):
        return ("cidr", v.cidr)
    if isinstance(v, T.SigmaFieldReference):
        return ("fieldref", v.field, bool(getattr(v, "starts_with", False)), bool(getattr(v, "ends_with", False)))
    if isinstance(v, T.SigmaCompareExpression):
        return ("cmp", real_value(v.number), v.op.name)
    if isinstance(v, T.SigmaTimestampPart):
        return ("tspart", v.timestamp_part.name, v.number)
    if isinstance(v, T.SigmaExists):
        return ("exists", bool(v))
    if isinstance(v, T.SigmaNumber):
        return ("num", v.number)
    if isinstance(v, T.SigmaBool):
        return ("bool", v.boolean)
    if isinstance(v, T.SigmaNull):
        return ("null",)
    return ("?", repr(v))


@register
class C03Bounded(Bounded):
    id = "C03.bounded.modifier_chains"
    props = ("C03",)

    def run(self, tier, seed):
        from sigma.rule import SigmaDetectionItem
        from sigma.exceptions import SigmaError
        mods = ["all", "neq", "base64", "base64offset", "cased", "cidr", "contains", "startswith", "endswith", "exists", "expand", "fieldref", "gt", "lte", "i", "m", "s", "re", "utf16", "utf16be",
                "utf16le", "wide", "windash", "hour", "year"]
        values = ["a", "a*", "*a", "a?b", "a\\*b", "100\\% x", "%x%", "a%x%b\\%y", "100\\% *%x%", "\\%T\\%*%x%", "%x%?5\\%", "-p", "a -p/q", "a-b c/d", "tool -übersicht", "maß-stab", "/x", "ä", "10.0.0.0/8", "^a.*b$", "", "cmd -a * -b", "x -a?y -b -c*z -d", "foo[0-9]*", "ba*", "(ab|cd)*", "a\\s*", "x.*", "^x", "y$",
                  5, 1.5, 1700000000.5, 2.5e-07, 1234.0000005, 9007199254740993, True, None, ["a", "b*"], ["-x", "%y%"], [1, 2], ["fo+bar", 5], [None, "a"], [True, "x", 1.5], []]
        maxlen = 2 if tier == "quick" else 3
        ev = nontriv = 0
        seen, fails, samples = {}, [], []
        # chains of three and four that put regular-expression flags, expand and the wildcard modifiers around each other (always run)
        extra = [c for c in itertools.chain(itertools.permutations(("re", "i", "expand")), itertools.permutations(("re", "m", "s", "expand")), itertools.permutations(("re", "i", "expand", "s")),
                                            itertools.permutations(("expand", "cased", "contains")), itertools.permutations(("expand", "endswith", "cased")), itertools.permutations(("re", "expand", "startswith")),
                                            itertools.permutations(("windash", "contains", "all")), itertools.permutations(("wide", "base64offset", "contains")), itertools.permutations(("utf16le", "base64", "cased")),
                                            itertools.permutations(("fieldref", "startswith", "endswith")), itertools.permutations(("fieldref", "contains", "endswith")), itertools.permutations(("fieldref", "startswith", "contains")))]
        chains = [(n, chain) for n in range(1, maxlen + 1) for chain in itertools.product(mods, repeat=n)] + ([(len(c), c) for c in extra] if maxlen < 3 else [(len(c), c) for c in extra if len(c) > 3])
        for n, chain in chains:
            if True:
                if n == 3 and tier != "quick" and len(set(chain)) < 3:
                    continue
                for raw in values:
                    for field in ("f", None) if n == 1 else ("f",):
                        ev += 1
                        want = spec_item(field, chain, raw)
                        key = (field or "") + "|" + "|".join(chain)
                        try:
                            it = SigmaDetectionItem.from_mapping(key, raw)
                            got = (tuple(real_value(v) for v in it.value), "AND" if it.value_linking.__name__ == "ConditionAND" else "OR", bool(it.negated))
                        except SigmaError:
                            got = ERR
                        except Exception as e:
                            got = f"non-Sigma {type(e).__name__}: {e}"
                        if "windash" in chain and "cased" in chain:
                            # whether dash variants of a cased string stay cased is not fixed by the specification: compare contents only
                            def nw(x):
                                if isinstance(x, tuple) and x and x[0] == "expansion":
                                    return ("expansion", tuple(nw(y) for y in x[1]))
                                if isinstance(x, tuple) and x and x[0] == "cased":
                                    return ("str",) + tuple(x[1:])
                                return x
                            if want != ERR:
                                want = (tuple(nw(x) for x in want[0]),) + want[1:]
                            if isinstance(got, tuple):
                                got = (tuple(nw(x) for x in got[0]),) + got[1:]
                        if want != ERR:
                            nontriv += 1
                        if got != want:
                            big = isinstance(raw, int) and not isinstance(raw, bool) and abs(raw) > 2 ** 53
                            # (recorded finding D38 - an integer beyond 2**53 is stored as the nearest float - is a kind of its own: one listed input)
                            kind = "D38" if big else (chain[-1] if want != ERR or got != ERR else "x")
                            seen[kind] = seen.get(kind, 0) + 1
                            if seen[kind] == 1:
                                fails.append({"text": ("KNOWN-D38 " if big else "") + f"{key!r}: {raw!r} -> {got}; the specification gives {want}", "input": [key, raw]})
                        elif len(samples) < 4 and want != ERR and n == 2 and "windash" in chain:
                            samples.append({"key": key, "value": raw, "result": str(got)[:200]})
        return {"evaluations": ev, "distinct_nontrivial": nontriv, "failures": fails[:30], "failure_counts": seen,
                "bound": f"all chains of <= {maxlen} modifiers (plus {len(extra)} permutations of flag / expand / wildcard / encoding chains of length 3 and 4) from {len(mods)} identifiers x {len(values)} values (single and list; strings with wildcards, backslashes, percent, dashes/slashes at word and non-word boundaries, non-ASCII; numbers, bool, null)",
                "rule": "distinct (chain, value); non-trivial = admissible by the specification", "samples": samples, "exhaustive": True}
