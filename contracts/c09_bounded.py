"""C09 bounded stand-in: rule sets with correlation chains, every permutation of the documents, four load paths."""
from __future__ import annotations
import itertools, random, tempfile, os, shutil, copy
from pyvc.api import *


def plain(name, rid=None):
    d = {"title": name, "name": name, "logsource": {"category": "c"}, "detection": {"sel": {"f": name}, "condition": "sel"}}
    if rid:
        d["id"] = rid
    return d


def corr(name, rules, generate=None, ctype="event_count"):
    c = {"type": ctype, "rules": rules, "timespan": "5m", "group-by": ["u"], "condition": {"gte": 2}}
    if generate is not None:
        c["generate"] = generate
    return {"title": name, "name": name, "correlation": c}


def ext(name, condition, generate=None):
    """a temporal correlation rule that names its rules only in an extended (boolean) condition - no rules list"""
    c = {"type": "temporal", "timespan": "5m", "group-by": ["u"], "condition": condition}
    if generate is not None:
        c["generate"] = generate
    return {"title": name, "name": name, "correlation": c}


ID_B = "11111111-2222-4333-8444-555555555555"
ID_C, ID_C3, ID_B2 = "22222222-2222-4333-8444-555555555555", "33333333-2222-4333-8444-555555555555", "44444444-2222-4333-8444-555555555555"
SETS = {
    "chain3": [plain("a"), plain("b", ID_B), corr("c1", ["a", ID_B]), corr("c2", ["c1"]), plain("u")],
    "two_generate": [plain("a"), corr("g_true", ["a"], True), corr("g_false", ["a"], False), plain("u")],
    "generate_only": [plain("a"), corr("g_true", ["a"], True), plain("u")],
    "anonymous": [plain("r"), plain("r2"), {**corr("a", ["r"]), "name": "a"}, {k: v for k, v in corr("X", ["r2"]).items() if k != "name"}, {k: v for k, v in corr("B", ["a"]).items() if k != "name"}],
    "missing": [plain("a"), corr("c1", ["nope"])],
    "depth3": [plain("a"), corr("c1", ["a"]), corr("c2", ["c1"]), corr("c3", ["c2", "a"])],
    # generation flags along a chain: the outer correlation does not ask for generation, the inner ones do
    "mixed_generate_chain": [plain("a"), corr("c1", ["a"], True), corr("c2", ["c1"], True), corr("c3", ["c2"], False), plain("u")],
    "inner_generates_not": [plain("a"), corr("c1", ["a"], False), corr("c2", ["c1"], True)],
    # a correlation rule that has a name AND an id, referred to by its id
    # ids written in upper case / with braces are still ids
    "upper_id": [plain("a"), plain("b", ID_B), corr("c1", ["a", ID_B.upper()]), corr("c2", ["{" + ID_B + "}", "c1"])],
    # rules named only by an extended condition: ordered before the correlation rule and subject to the same generation rule
    "extended_only": [plain("a"), plain("b"), ext("x1", "a and not b"), plain("u")],
    "extended_generate": [plain("a"), plain("b"), ext("x1", "a and not b", True), plain("u")],
    "extended_chain": [plain("a"), plain("b"), ext("x1", "a or b"), corr("c2", ["x1"]), plain("u")],
    # rules shared by two correlation rules that search several rules at once; a correlation rule shared by two outer ones
    "shared_subqueries": [plain("a"), plain("b"), corr("t1", ["a", "b"], ctype="temporal"), corr("t2", ["b", "a"], ctype="temporal"), plain("u")],
    "shared_inner": [plain("a"), plain("b"), corr("in1", ["a", "b"], ctype="temporal"), corr("o1", ["in1"]), corr("o2", ["in1"])],
    "corr_by_id": [plain("a"), {**corr("c1", ["a"]), "id": ID_C}, corr("c2", [ID_C]), {**corr("c3", ["c1", ID_B2]), "id": ID_C3}, plain("b2", ID_B2)],
}


def outcome(load, docs):
    from sigma.backends.test import TextQueryTestBackend
    from sigma.exceptions import SigmaError
    try:
        col = load(docs)
    except SigmaError as e:
        return ("error", type(e).__name__)      # at load time
    try:
        class HookB(TextQueryTestBackend):          # a backend that uses the documented per-sub-query hook (not idempotent: applying it twice shows)
            def convert_correlation_search_multi_rule_query_postprocess(self, query):
                return "<" + query + ">"
        from sigma.processing.pipeline import ProcessingPipeline
        # a pipeline item gated by a log source condition: for a correlation rule it holds through the rules it refers to (directly or nested)
        b = HookB(ProcessingPipeline.from_dict({"name": "p", "priority": 10, "transformations": [{"id": "m", "type": "field_name_mapping", "mapping": {"u": "U", "f": "F"}, "rule_conditions": [{"type": "logsource", "category": "c"}]}]}))
        b.convert(col)
        res = {}
        for r in col.rules:
            key = r.name or r.title
            try:
                res[key] = (bool(r._output), tuple(map(str, r.get_conversion_result())))
            except SigmaError as e:
                res[key] = ("no-result", type(e).__name__)
        return ("ok", tuple(sorted(res.items())))
    except SigmaError as e:
        return ("error-at-conversion", type(e).__name__)


@register
class C09Bounded(Bounded):
    id = "C09.bounded.document_orders"
    props = ("C09",)

    def run(self, tier, seed):
        import yaml
        from sigma.collection import SigmaCollection
        rnd = random.Random(seed)
        root = tempfile.mkdtemp(prefix="c09_")

        def from_yaml(docs):
            return SigmaCollection.from_yaml("---\n".join(yaml.safe_dump(d) for d in docs))

        def from_dicts(docs):
            return SigmaCollection.from_dicts(copy.deepcopy(docs))

        def merge(docs):     # one collection per document, merged with the default arguments of merge()
            return SigmaCollection.merge([SigmaCollection.from_dicts([copy.deepcopy(d)], resolve_references=False) for d in docs])

        def load_ruleset(docs):
            d = tempfile.mkdtemp(dir=root)
            for i, doc in enumerate(docs):
                open(os.path.join(d, f"{i:02d}.yml"), "w").write(yaml.safe_dump(doc))
            return SigmaCollection.load_ruleset([d])
        def load_ruleset_hook(docs):        # the same files with an on_load hook that hands every per-file collection back unchanged
            d = tempfile.mkdtemp(dir=root)
            for i, doc in enumerate(docs):
                open(os.path.join(d, f"{i:02d}.yml"), "w").write(yaml.safe_dump(doc))
            return SigmaCollection.load_ruleset([d], on_load=lambda path, col: col)
        loaders = {"from_yaml": from_yaml, "from_dicts": from_dicts, "load_ruleset": load_ruleset, "merge": merge, "load_ruleset with an identity on_load hook": load_ruleset_hook}
        ev = nontriv = 0
        seen, fails, samples = {}, [], []
        try:
            for sname, docs in SETS.items():
                perms = list(itertools.permutations(range(len(docs))))
                if tier == "quick" and len(perms) > 24:
                    perms = perms[:1] + rnd.sample(perms[1:], 23)
                ref = None
                for perm in perms:
                    for lname, load in loaders.items():
                        ev += 1
                        nontriv += 1
                        out = outcome(load, [docs[i] for i in perm])
                        if ref is None:
                            ref = (out, perm, lname)
                            if len(samples) < 4:
                                samples.append({"set": sname, "outcome": str(out)[:300]})
                        elif out != ref[0]:
                            kind = f"{sname}"
                            seen[kind] = seen.get(kind, 0) + 1
                            if seen[kind] == 1:
                                fails.append({"text": f"rule set {sname}: document order {[docs[i]['title'] for i in perm]} via {lname} gives {str(out)[:260]}, order {[docs[i]['title'] for i in ref[1]]} via {ref[2]} gives {str(ref[0])[:260]}", "input": [sname, list(perm), lname]})
                # loading reads the parsed documents, it does not consume them: the same dict objects can be loaded again with the same outcome
                ev += 1
                reused = copy.deepcopy(docs)
                first = outcome(lambda ds: SigmaCollection.from_dicts(ds), reused)
                if reused != docs:
                    changed = [d["title"] for d, e in zip(docs, reused) if d != e]
                    fails.append({"text": f"rule set {sname}: from_dicts modified the documents it was given ({changed}): {[e for d, e in zip(docs, reused) if d != e][:1]}", "input": [sname, "input modified"]})
                second = outcome(lambda ds: SigmaCollection.from_dicts(ds), reused)
                if first != second:
                    fails.append({"text": f"rule set {sname}: loading the same parsed documents a second time gives {str(second)[:200]} instead of {str(first)[:200]}", "input": [sname, "loaded twice"]})
                # expectations that do not depend on order
                o = ref[0]
                if sname == "two_generate" and o[0] == "ok":
                    d = dict(o[1])
                    if d["a"][0] is not False:
                        fails.append({"text": f"rule referenced by a correlation rule without generation still emits its own query: {d['a']}", "input": [sname]})
                if sname in ("extended_only", "extended_generate", "extended_chain"):
                    want_out = {"a": sname == "extended_generate", "b": sname == "extended_generate", "u": True}
                    if o[0] != "ok":
                        fails.append({"text": f"rule set {sname} (rules named only in an extended condition): {o}", "input": [sname]})
                    else:
                        d = dict(o[1])
                        got_out = {k: d[k][0] for k in want_out}
                        if got_out != want_out or any(d[k][0] == "no-result" for k in d):
                            fails.append({"text": f"rule set {sname}: rules emitting their own query {got_out}, expected {want_out} (named only in an extended condition, generate {'on' if sname == 'extended_generate' else 'off'}); results {str(d)[:200]}", "input": [sname]})
                if sname == "generate_only" and o[0] == "ok" and dict(o[1])["a"][0] is not True:
                    fails.append({"text": "rule referenced only with generation enabled emits no query", "input": [sname]})
                if sname == "mixed_generate_chain" and o[0] == "ok":
                    d = dict(o[1])
                    want = {"a": True, "c1": True, "c2": False, "c3": True, "u": True}       # emitted: unreferenced, or referenced only with generation enabled
                    got = {k: v[0] for k, v in d.items()}
                    if got != want:
                        fails.append({"text": f"generation along a chain: rules emitting their own query {got}, expected {want} (a is referenced by c1 with generate, c1 by c2 with generate, c2 by c3 without)", "input": [sname]})
                if sname == "inner_generates_not" and o[0] == "ok":
                    got = {k: v[0] for k, v in dict(o[1]).items()}
                    if got != {"a": False, "c1": True, "c2": True}:
                        fails.append({"text": f"generation: rules emitting their own query {got}, expected a: False (referenced without generate), c1: True (referenced with generate), c2: True", "input": [sname]})
                if sname == "upper_id" and o[0] != "ok":
                    fails.append({"text": f"rules referred to by their id written in upper case / with braces: {o}", "input": [sname]})
                if sname == "corr_by_id" and o[0] != "ok":
                    fails.append({"text": f"correlation rules referred to by their id (they also have a name): {o}", "input": [sname]})
                if sname == "missing" and o != ("error", "SigmaRuleNotFoundError"):
                    fails.append({"text": f"reference to a missing rule: {o} instead of SigmaRuleNotFoundError at load time", "input": [sname]})
        finally:
            shutil.rmtree(root, ignore_errors=True)
        return {"evaluations": ev, "distinct_nontrivial": nontriv, "failures": fails, "failure_counts": seen,
                "bound": f"{len(SETS)} rule sets (<= 5 documents, chains of depth <= 3, name and id references, anonymous correlation rules, unrelated rules) x all permutations ({'sampled 24' if tier == 'quick' else 'exhaustive'}) x 5 load paths (from_yaml, from_dicts, load_ruleset without / with an identity on_load hook, merge of single-document collections)",
                "rule": "distinct (set, permutation, load path)", "samples": samples, "exhaustive": tier != "quick"}
