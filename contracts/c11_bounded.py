"""C11 bounded stand-in: real collections with filters, converted and compared with the rule document combined with the filter by hand."""
from __future__ import annotations
import itertools, re, copy
from pyvc.api import *

KEYWORDS = {"not", "and", "or", "1", "any", "all", "of"}


def rewrite(cond, prefix):
    """independent rewrite of a filter condition: tokens of the condition grammar; keywords kept; them -> prefix*; everything else prefixed"""
    def tok(m):
        t = m.group(0)
        if t in KEYWORDS:
            return t
        if t == "them":
            return prefix + "*"
        return prefix + t
    return re.sub(r"[A-Za-z0-9_*\-]+", tok, cond)


def expand_selectors(cond, names, underscore_rule=True):
    """replace every selector of a rule condition by the explicit OR / AND of the rule's OWN matching detections (no capture possible)"""
    import fnmatch

    def sel(m):
        q, pat = m.group(1), m.group(2)
        glob = "*" if pat == "them" else pat
        ms = [n for n in names if fnmatch.fnmatchcase(n, glob) and (not underscore_rule or pat.startswith("_") or not n.startswith("_"))]
        if not ms:
            return m.group(0)
        return "(" + (" and " if q == "all" else " or ").join(ms) + ")"
    return re.sub(r"\b(1|any|all) of ([A-Za-z0-9_*]+)", sel, cond)


def lsrc(d):
    return {k: v for k, v in d.items() if v is not None}


def covers(f, r):
    return all(f.get(k) is None or f.get(k) == r.get(k) for k in ("category", "product", "service"))


@register
class C11Bounded(Bounded):
    id = "C11.bounded.filters"
    props = ("C11",)

    def run(self, tier, seed):
        from sigma.collection import SigmaCollection
        from sigma.backends.test import TextQueryTestBackend
        from sigma.exceptions import SigmaError
        rule_dets = [({"sel": {"a": 1}}, "sel"), ({"sel": {"a": 1}, "filter_x": {"b": 2}}, "sel and not 1 of filter_*"), ({"s1": {"a": 1}, "s2": {"c": 3}}, "1 of them"),
                     ({"sel_proc": {"a": 1}, "x_proc": {"c": 3}}, "all of *_proc"), ({"notepad": {"a": 1}, "2sel": {"d": 4}}, "notepad or 2sel"), ({"_u": {"a": 1}, "v": {"c": 3}}, "1 of _* and v"),
                     ({"s1": {"a": 1}, "s2": {"c": 3}, "s3": {"e": 5}}, "(s1 and s2) or (s3 and not s2)"), ({"s1": {"a": 1}, "s2": {"c": 3}}, "(s1) or (s2)")]
        filt_dets = [({"sel": {"u": "adm"}}, "not sel"), ({"sel": {"u": "adm"}, "svc_proc": {"i": "x"}}, "not (sel or svc_proc)"), ({"f1": {"u": 1}, "f2": {"w": 2}}, "not 1 of them"),
                     ({"f_a": {"u": 1}, "f_b": {"w": 2}}, "not all of f_*"), ({"a_allow": {"u": 1}, "b_allow": {"w": 2}}, "not 1 of *_allow"), ({"2sel": {"u": 1}}, "not 2sel"),
                     ({"_sel": {"u": 1}}, "not _sel"), ({"android": {"u": 1}}, "not android"), ({"sel": {"u": 1}}, "sel"), ({"f1": {"u": 1}, "f2": {"w": 2}}, "(not f1) or (not f2)"),
                     ({"f1": {"u": 1}, "f2": {"w": 2}}, "not 1 of *"), ({"allow_a": {"u": 1}, "al_x_ow_a": {"w": 2}, "alow_b": {"x": 3}}, "not 1 of al*ow_a"), ({"f1": {"u": 1}, "f2": {"w": 2}}, "not all of *"),
                     # (a pattern covers exactly the names it matches as a whole: `*_allow` does not cover `allow`, `a*a` not `a`)
                     ({"allow": {"u": 1}, "x_allow": {"w": 2}}, "not 1 of *_allow"), ({"a": {"u": 1}, "aa": {"w": 2}, "aba": {"x": 3}}, "not all of a*a")]
        logsources = [({"category": "c", "product": "p"}, {"category": "c"}), ({"category": "c", "product": "p"}, {"product": "p"}), ({"category": "c"}, {"category": "c", "product": "p"}),
                      ({"category": "c", "product": "p", "service": "s"}, {"category": "c", "product": "p", "service": "s"}), ({"category": "c"}, {"category": "d"}),
                      ({"category": "c", "product": "p"}, {"category": "c", "product": "P"})]          # log source values are compared as written (a different spelling is a different value, for every attribute set)
        targets = ["any", "byname", "byname_scalar", "any_scalar_upper", "byid", "byid_scalar", "byID_upper", "other"]
        ev = nontriv = 0
        seen, fails, samples = {}, [], []

        def fail(kind, text, inp):
            seen[kind] = seen.get(kind, 0) + 1
            if seen[kind] == 1:
                fails.append({"text": text, "input": inp})
        RID = "6f3e2987-db24-4c78-a860-b4f4095a7095"
        b = lambda: TextQueryTestBackend()
        combos = list(itertools.product(range(len(rule_dets)), range(len(filt_dets)), range(len(logsources)), targets))
        if tier == "quick":
            combos = combos[::3]
        for ri, fi, li, tg in combos:
            rd, rc = rule_dets[ri]
            fd, fc = filt_dets[fi]
            rls, fls = logsources[li]
            rule = {"title": "r", "name": "Rname_DC", "id": RID, "logsource": rls, "detection": {**copy.deepcopy(rd), "condition": rc}}
            other = {"title": "o", "name": "oname", "id": "00000000-0000-4000-8000-000000000001", "logsource": {"category": "zzz"}, "detection": {"sel": {"z": 9}, "condition": "sel"}}
            rules_ref = {"any": "any", "byname": ["Rname_DC"], "byname_scalar": "Rname_DC", "any_scalar_upper": "ANY", "byid": [RID], "byid_scalar": RID, "byID_upper": [RID.upper()], "other": ["oname"]}[tg]
            filt = {"title": "f", "logsource": fls, "filter": {"rules": rules_ref, **copy.deepcopy(fd), "condition": fc}}
            applies = covers(fls, rls) and tg != "other"
            ev += 1
            known = None
            if applies and any(re.match(r"[0-9_]", n) for n in fd):
                known = "D11"      # handled below: fixed (token regex first-character class)
            if applies and rc.startswith("1 of _*"):
                known = "KNOWN-D12"
            try:
                base = b().convert(SigmaCollection.from_dicts([copy.deepcopy(rule), copy.deepcopy(other)]))
                got = b().convert(SigmaCollection.from_dicts([copy.deepcopy(rule), copy.deepcopy(other), copy.deepcopy(filt)]))
            except SigmaError as e:
                fail("error" + ("-" + known if known else ""), (known + " " if known and known.startswith("KNOWN") else "") + f"rule {rc!r} {sorted(rd)} with filter {fc!r} {sorted(fd)} ({tg}, logsources {rls}/{fls}): {type(e).__name__}: {e}", [ri, fi, li, tg])
                continue
            if applies:
                nontriv += 1
                ref_rule = copy.deepcopy(rule)
                for n, d in fd.items():
                    ref_rule["detection"]["_zzfilt_" + n] = copy.deepcopy(d)
                ref_rule["detection"]["condition"] = f"({expand_selectors(rc, list(rd))}) and ({rewrite(expand_selectors(fc, list(fd), underscore_rule=False), '_zzfilt_')})"
                want = b().convert(SigmaCollection.from_dicts([ref_rule, copy.deepcopy(other)]))
            else:
                want = base
            if got != want:
                fail("query" + ("-" + known if known else ""), (known + " " if known and known.startswith("KNOWN") else "") + f"rule {rc!r} {sorted(rd)} with filter {fc!r} {sorted(fd)} ({tg}, logsources {rls}/{fls}, applies={applies}): {got} != {want}", [ri, fi, li, tg])
            elif len(samples) < 3 and applies and fi == 4:
                samples.append({"rule": rc, "filter": fc, "query": got[0]})
        # several filters at once, through every route a filter can reach a collection: constructor / from_dicts, and filters appended
        # to the rules of an existing collection (applied when references are resolved)
        from sigma.rule import SigmaRule
        from sigma.filters import SigmaFilter
        rdocs = [{"title": "r1", "name": "r1", "logsource": {"category": "c", "product": "p"}, "detection": {"sel": {"a": 1}, "condition": "sel"}},
                 {"title": "r2", "name": "r2", "logsource": {"category": "c"}, "detection": {"sel": {"b": 2}, "condition": "sel"}},
                 {"title": "r3", "name": "r3", "logsource": {"category": "d"}, "detection": {"sel": {"c": 3}, "condition": "sel"}}]
        # (hand-numbered ids that share their leading digits, and detections of the same name in two filters that hit the same rule)
        fdocs = [{"title": "f1", "id": "00000000-0000-0000-0000-000000000001", "logsource": {"category": "c"}, "filter": {"rules": "any", "x": {"u": "adm"}, "condition": "not x"}},
                 {"title": "f2", "id": "00000000-0000-0000-0000-000000000002", "logsource": {"category": "c", "product": "p"}, "filter": {"rules": ["r1"], "x": {"v": "svc"}, "condition": "not 1 of x*"}},
                 {"title": "f3", "id": "00000000-0000-0000-0000-000000000003", "logsource": {"category": "d"}, "filter": {"rules": ["r3"], "z": {"w": "sys"}, "condition": "not z"}}]
        for fperm in itertools.permutations(range(3)):
            ev += 1
            nontriv += 1
            fl = [fdocs[i] for i in fperm]
            try:
                q_dicts = b().convert(SigmaCollection.from_dicts(copy.deepcopy(rdocs + fl)))
                q_ctor = b().convert(SigmaCollection([SigmaRule.from_dict(copy.deepcopy(d)) for d in rdocs] + [SigmaFilter.from_dict(copy.deepcopy(d)) for d in fl]))
                col = SigmaCollection([SigmaRule.from_dict(copy.deepcopy(d)) for d in rdocs])
                col.rules.extend(SigmaFilter.from_dict(copy.deepcopy(d)) for d in fl)
                q_append = b().convert(col)
                # the same, but the rules were already looked at (conditions parsed by a validator-like pass) / converted once before the filters arrive
                col2 = SigmaCollection([SigmaRule.from_dict(copy.deepcopy(d)) for d in rdocs])
                for r_ in col2.rules:
                    [c_.parsed for c_ in r_.detection.parsed_condition]
                col2.rules.extend(SigmaFilter.from_dict(copy.deepcopy(d)) for d in fl)
                q_append_parsed = b().convert(col2)
                col3 = SigmaCollection([SigmaRule.from_dict(copy.deepcopy(d)) for d in rdocs])
                b().convert(col3)
                col3.rules.extend(SigmaFilter.from_dict(copy.deepcopy(d)) for d in fl)
                q_append_converted = b().convert(col3)
                parts = [SigmaCollection.from_dicts([copy.deepcopy(d)], collect_filters=True, resolve_references=False) for d in rdocs[:1] + fl[:2] + rdocs[1:] + fl[2:]]
                q_merge_list = b().convert(SigmaCollection.merge(parts))
                parts = [SigmaCollection.from_dicts([copy.deepcopy(d)], collect_filters=True, resolve_references=False) for d in rdocs[:1] + fl[:2] + rdocs[1:] + fl[2:]]
                q_merge_gen = b().convert(SigmaCollection.merge(p for p in parts))
                import tempfile, shutil, os, yaml
                tmpd = tempfile.mkdtemp(prefix="c11_files_")
                try:
                    for i, d in enumerate(rdocs[:1] + fl[:2] + rdocs[1:] + fl[2:]):      # one document per file: some files hold only a filter
                        open(os.path.join(tmpd, f"{i:02d}.yml"), "w").write(yaml.safe_dump(d))
                    q_files = b().convert(SigmaCollection.load_ruleset([tmpd]))
                    q_files_hook = b().convert(SigmaCollection.load_ruleset([tmpd], on_load=lambda path, col: col))
                finally:
                    shutil.rmtree(tmpd, ignore_errors=True)
            except Exception as e:
                fail("stacked-error", f"three filters in order {[f['title'] for f in fl]}: {type(e).__name__}: {e}", [list(fperm)])
                continue
            want = ['a=1 and not u="adm" and not v="svc"', 'b=2 and not u="adm"', 'c=3 and not w="sys"']
            norm = lambda qs: [" and ".join(sorted(q.split(" and "))) for q in qs]
            for route, got in (("from_dicts", q_dicts), ("constructor", q_ctor), ("filters appended to collection.rules", q_append), ("filters appended after the rules' conditions were parsed", q_append_parsed), ("filters appended after a first conversion", q_append_converted), ("merge of a list of collections", q_merge_list),
                               ("merge of a generator of collections", q_merge_gen), ("load_ruleset of one file per document", q_files), ("load_ruleset with an identity on_load hook", q_files_hook)):
                same = (sorted(norm(got)) == sorted(norm(want))) if route.startswith("load_ruleset") else (norm(got) == norm(want))      # the order of files is the loader's business
                if not same:
                    fail("stacked:" + route, f"three filters in order {[f['title'] for f in fl]} via {route}: {got}, expected each rule narrowed by exactly the filters that target it: {want}", [list(fperm), route])
        # a filter document in a stream with an `action: global` document: the global document is a template for detection RULES only - the
        # filter keeps the log source it states (and so still covers the rule that came before the global document)
        gdocs = [{"title": "l", "name": "l", "logsource": {"category": "c", "product": "linux"}, "detection": {"sel": {"a": 1}, "condition": "sel"}},
                 {"action": "global", "logsource": {"product": "windows"}, "level": "low"},
                 {"title": "w", "name": "w", "logsource": {"category": "c"}, "detection": {"sel": {"b": 2}, "condition": "sel"}},
                 {"title": "F", "logsource": {"category": "c"}, "filter": {"rules": "any", "x": {"u": "adm"}, "condition": "not x"}}]
        import yaml as _y
        for route, load in (("from_dicts", lambda: SigmaCollection.from_dicts(copy.deepcopy(gdocs))), ("from_yaml", lambda: SigmaCollection.from_yaml("---\n".join(_y.safe_dump(d) for d in gdocs)))):
            ev += 1
            nontriv += 1
            try:
                got = b().convert(load())
            except Exception as e:
                got = [f"{type(e).__name__}: {e}"]
            want = ['a=1 and not u="adm"', 'b=2 and not u="adm"']
            if sorted(got) != sorted(want):
                fail("global+filter", f"a stream rule / global document (product windows) / rule / filter on category c via {route}: {got}, expected both rules narrowed by the filter: {want}", [route])
        # a global document that carries the whole detection section, rules without their own, and a repeated rule that ADDS a detection: the
        # added detection belongs to the repeated rule only - every selector ranges over exactly the detections its rule was written with
        tdocs2 = [{"action": "global", "logsource": {"category": "c"}, "detection": {"sel_a": {"a": 1}, "condition": "1 of sel_*"}},
                  {"title": "r1", "name": "r1"}, {"action": "repeat", "title": "r2", "name": "r2", "detection": {"sel_b": {"b": 2}}}, {"title": "r3", "name": "r3"}, {"title": "r4", "name": "r4", "detection": {"sel_c": {"c": 3}}}]
        import yaml as _y2
        for route, load in (("from_dicts", lambda: SigmaCollection.from_dicts(copy.deepcopy(tdocs2))), ("from_yaml", lambda: SigmaCollection.from_yaml("---\n".join(_y2.safe_dump(d) for d in tdocs2)))):
            ev += 1
            nontriv += 1
            try:
                got = b().convert(load())
            except Exception as e:
                got = [f"{type(e).__name__}: {e}"]
            want = ["a=1", "a=1 or b=2", "a=1", "a=1 or c=3"]
            if [" or ".join(sorted(q.strip("()").split(" or "))) for q in got] != want:
                fail("global+repeat", f"global document with the detection section, rules r1, r2 (repeat, adds sel_b), r3, r4 (adds sel_c) via {route}: {got}, expected {want}", [route])
        # a rule built with the constructor (id given as text) is found by a filter that names its id; a filter whose log source has an
        # EMPTY text for an attribute covers only rules with that empty text
        import dataclasses
        from uuid import UUID
        for idform in ("text", "UUID", "upper-case text"):
            ev += 1
            nontriv += 1
            try:
                parsed = SigmaRule.from_dict({"title": "r", "logsource": {"category": "c"}, "detection": {"sel": {"a": 1}, "condition": "sel"}})
                rid = {"text": RID, "UUID": UUID(RID), "upper-case text": RID.upper()}[idform]
                built = SigmaRule(title="r", id=rid, logsource=parsed.logsource, detection=parsed.detection)
                flt = SigmaFilter.from_dict({"title": "f", "logsource": {"category": "c"}, "filter": {"rules": [RID], "x": {"u": "adm"}, "condition": "not x"}})
                got = b().convert(SigmaCollection([built, flt]))
            except Exception as e:
                got = [f"{type(e).__name__}: {e}"]
            if got != ['a=1 and not u="adm"']:
                fail("constructor-id", f"rule built with SigmaRule(id=<{idform}>) and a filter naming that id: {got}, expected ['a=1 and not u=\"adm\"']", [idform])
        for fls, rls, applies_ in (({"category": "c", "service": ""}, {"category": "c", "service": "s"}, False), ({"category": "c", "service": ""}, {"category": "c"}, False), ({"category": "c", "product": ""}, {"category": "c", "product": "p", "service": "s"}, False),
                                   ({"category": "c", "service": ""}, {"category": "c", "service": ""}, True)):
            ev += 1
            nontriv += 1
            try:
                got = b().convert(SigmaCollection.from_dicts([{"title": "r", "logsource": rls, "detection": {"sel": {"a": 1}, "condition": "sel"}}, {"title": "f", "logsource": fls, "filter": {"rules": "any", "x": {"u": "adm"}, "condition": "not x"}}]))
            except Exception as e:
                got = [f"{type(e).__name__}: {e}"]
            want = ['a=1 and not u="adm"'] if applies_ else ["a=1"]
            if got != want:
                fail("empty-text-logsource", f"filter log source {fls} on a rule with log source {rls}: {got}, expected {want} (an attribute given as empty text is a value, not 'unset')", [fls, rls])
        # two filters on one rule that both say `them` / a pattern over everything: each ranges over ITS OWN detections only
        tdocs = [{"title": "r1", "name": "r1", "logsource": {"category": "c"}, "detection": {"sel": {"a": 1}, "condition": "sel"}},
                 {"title": "f1", "logsource": {"category": "c"}, "filter": {"rules": "any", "x": {"u": "adm"}, "y": {"v": "svc"}, "condition": "not all of them"}},
                 {"title": "f2", "logsource": {"category": "c"}, "filter": {"rules": ["r1"], "z": {"w": "sys"}, "condition": "not 1 of them"}}]
        for them2, tperm in itertools.product(("them", "*"), itertools.permutations(range(3))):
            ev += 1
            nontriv += 1
            docs = copy.deepcopy([tdocs[i] for i in tperm])
            for d in docs:
                if "filter" in d:
                    d["filter"]["condition"] = d["filter"]["condition"].replace("them", them2)
            try:
                got = b().convert(SigmaCollection.from_dicts(docs))
            except Exception as e:
                got = [f"{type(e).__name__}: {e}"]
            want = ('a=1 and not (u="adm" and v="svc") and not w="sys"', 'a=1 and not w="sys" and not (u="adm" and v="svc")')
            if len(got) != 1 or got[0] not in want:
                fail("two-them", f"two filters on one rule, conditions 'not all of {them2}' (x, y) and 'not 1 of {them2}' (z), documents in order {[tdocs[i]['title'] for i in tperm]}: {got}, expected {want[0]!r} (filters in either order)", [them2, list(tperm)])
        # rules with a LIST of conditions, also derived from the previous document (`action: repeat`): every rule is narrowed once, in every
        # condition, and the caller's documents are not rewritten (the filter works on the rule, not on the parsed YAML it came from)
        ldocs = [{"title": "a", "name": "a", "logsource": {"category": "c"}, "detection": {"sel": {"f": 1}, "other": {"g": 2}, "condition": ["sel", "other"]}},
                 {"action": "repeat", "title": "b", "name": "b", "detection": {"sel": {"f": 3}}},
                 {"title": "F", "logsource": {"category": "c"}, "filter": {"rules": "any", "x": {"u": "adm"}, "condition": "not x"}}]
        for variant in ("list condition", "list condition + repeat", "loaded twice"):
            ev += 1
            nontriv += 1
            docs = copy.deepcopy(ldocs if variant == "list condition + repeat" else [ldocs[0], ldocs[2]])
            snapshot = copy.deepcopy(docs)
            try:
                got = b().convert(SigmaCollection.from_dicts(docs))
                if variant == "loaded twice":
                    got = b().convert(SigmaCollection.from_dicts(docs))
            except Exception as e:
                got = [f"{type(e).__name__}: {e}"]
            want = ['f=1 and not u="adm"', 'g=2 and not u="adm"'] + (['f=3 and not u="adm"', 'g=2 and not u="adm"'] if variant == "list condition + repeat" else [])
            if got != want:
                fail("list-condition", f"rule(s) with a list of conditions and a filter ({variant}): {got}, expected every condition of every rule narrowed once: {want}", [variant])
            elif variant != "list condition + repeat" and docs != snapshot:
                fail("input-rewritten", f"from_dicts with a filter rewrote the caller's documents ({variant}): {[d.get('detection', {}).get('condition') for d in docs]}", [variant])
        return {"evaluations": ev, "distinct_nontrivial": nontriv, "failures": fails, "failure_counts": seen,
                "bound": f"constructor-built rules by id (3 id forms), empty-text log source attributes (4); two filters with `them` / `*` on one rule (12 orders); list-valued conditions with action repeat (3 variants); a filter after a global document (2 routes); all orders of three filters through seven routes; {len(rule_dets)} rule shapes x {len(filt_dets)} filter shapes x {len(logsources)} log source relations x {len(targets)} rule-list forms" + (" (every third)" if tier == "quick" else ""),
                "rule": "distinct (rule, filter, log sources, target); non-trivial = the filter applies", "samples": samples, "exhaustive": tier != "quick"}
