"""C18 - CIDR expansion matches exactly the addresses of the network (sigma/types.py, conversion/base.py).

IPv4 spec (A.8): network (a, p), a % 2^(32-p) == 0; d = (8 - p%8) % 8, q = p + d, g = q // 8; sub-network k (0 <= k < 2^d) has address
a + k*2^(32-q); its pattern is the first g octets joined by '.', followed by '.' + wildcard (g = 0: wildcard alone, g = 4: the address).
"""
from __future__ import annotations
import z3
from pyvc.api import *
from pyvc.values import *
from pyvc import ops

SUB = ("opaque", "Subnet")
S = z3.StringVal


def sub_addr(x):
    return z3.Function("Subnet.network_address", z3.DeclareSort("Subnet"), z3.IntSort())(x)


def sub_plen(x):
    return z3.Function("Subnet.prefixlen", z3.DeclareSort("Subnet"), z3.IntSort())(x)


def octet(a, i):           # i = 0..3
    return (a / (256 ** (3 - i))) % 256


def dec(n):
    return z3.IntToStr(n)


def dotted(a, g=4):
    parts = []
    for i in range(g):
        if i:
            parts.append(S("."))
        parts.append(dec(octet(a, i)))
    return parts[0] if len(parts) == 1 else z3.Concat(*parts)


def pattern_spec(x, wildcard):
    a, g = sub_addr(x), sub_plen(x) / 8
    return z3.If(g == 0, wildcard, z3.If(g == 1, z3.Concat(dotted(a, 1), S("."), wildcard), z3.If(g == 2, z3.Concat(dotted(a, 2), S("."), wildcard),
                 z3.If(g == 3, z3.Concat(dotted(a, 3), S("."), wildcard), dotted(a, 4)))))


def mapP(xs, w):
    return z3.Function("map_pattern", z3.SeqSort(z3.DeclareSort("Subnet")), z3.StringSort(), z3.SeqSort(z3.StringSort()))(xs, w)


class IPStr(Sym):
    """str(IPv4Address): dotted quad of an integer address"""
    __slots__ = ("addr",)

    def __init__(self, addr):
        super().__init__(dotted(addr, 4), "str")
        self.addr = addr


class ExpandLoop(LoopSpec):
    modifies = {"patterns": ("seq", "str")}

    def inv(self, I, env, done, rest, total):
        w = mk_str(env["wildcard"])
        return [("patterns ++ map(pattern, rest) == map(pattern, subnets)", z3.Concat(ops.seq_term(I, env["patterns"], "str"), mapP(rest, w)) == mapP(total, w))]

    def hints(self, I, env, phase, x, done, rest2, total):
        w = mk_str(env["wildcard"])
        E0 = z3.Empty(z3.SeqSort(z3.DeclareSort("Subnet")))
        if phase == "pre":
            return [mapP(z3.Concat(z3.Unit(x), rest2), w) == z3.Concat(z3.Unit(pattern_spec(x, w)), mapP(rest2, w)),
                    sub_plen(x) >= 0, sub_plen(x) <= 32, sub_addr(x) >= 0, sub_addr(x) < 2 ** 32]
        if phase == "exit":
            return [mapP(E0, w) == z3.Empty(z3.SeqSort(z3.StringSort()))]
        return []


@register
class CIDRExpandV4(Contract):
    id = "C18.SigmaCIDRExpression.expand[ipv4]"
    target = "sigma.types:SigmaCIDRExpression.expand"
    props = ("C18",)
    assumed = ["ipaddress: IPv4Network.prefixlen, .subnets(d), .network_address; str(IPv4Address) is the dotted quad of its integer value, so str(addr).split('.') are the four decimal octets",
               "the IPv6 branch is not under this contract (bounded stand-in)"]

    def setup(self, E):
        E.opaque_fields[("Subnet", "prefixlen")] = "int"
        E.external_isinstance["ipaddress.IPv4Network"] = lambda I, v: isinstance(v, SObj) and v.cls == "IPv4Network"
        E.loop_invariants[(self.target, 0)] = ExpandLoop()
        # subnet.network_address -> address object whose str() is the dotted quad
        def addr_of(I, o):
            return SObj("IPv4Address", {}, ghost={"addr": sub_addr(o.t)})
        E.opaque_attr_hooks = {("Subnet", "network_address"): addr_of}

    def args(self, I):
        p = I.fresh("prefixlen", "int")
        I.ctx.assume(z3.And(p.t >= 0, p.t <= 32))
        subnets = I.fresh("subnets", "seq", elem=SUB)

        def f_subnets(I2, a, k):
            d = a[0] if a else k.get("prefixlen_diff", 1)
            net.ghost["diff"] = d
            return subnets
        net = SObj("IPv4Network", {"prefixlen": p, "subnets": NativeFn("subnets", f_subnets)})
        me = SObj(I.E.index.lookup("sigma.types:SigmaCIDRExpression"), {"network": net}, lazy=True)
        w = I.fresh("wildcard", "str")
        return {"self": me, "args": [w], "net": net, "p": p, "subnets": subnets, "w": w}

    def post(self, I, inp, r):
        c = I.ctx
        p = inp["p"].t
        d = inp["net"].ghost.get("diff")
        c.require(d is not None, "the sub-networks are taken from network.subnets(d)")
        if d is not None:
            c.require(mk_int(d) == (8 - p % 8) % 8, "d == (8 - prefixlen % 8) % 8: sub-networks end at the next octet boundary")
        c.require(ops.seq_term(I, r, "str") == mapP(inp["subnets"].t, inp["w"].t), "result == [pattern(subnet) for subnet in subnets], pattern = first prefixlen//8 octets + '.' + wildcard")

    def frame_ok(self, I, inp, obj, name):
        return False

    def candidates(self):
        """native domain searched when the solvers leave an obligation open: every prefix length x three addresses x three wildcard tokens"""
        for w in ("*", "%", ".*"):
            for plen in range(33):
                for base in (0x0A0B0C0D, 0xC0A801FE, 0):
                    a = base & ~((1 << (32 - plen)) - 1) & 0xFFFFFFFF
                    yield {"cidr": f"{(a >> 24) & 255}.{(a >> 16) & 255}.{(a >> 8) & 255}.{a & 255}/{plen}", "wildcard": w}

    def replay(self, values):
        if "cidr" not in values:
            return None
        from sigma.types import SigmaCIDRExpression
        cidr, w = values["cidr"], values.get("wildcard", "*")
        addr, plen = cidr.split("/")
        plen = int(plen)
        o = [int(x) for x in addr.split(".")]
        a = (o[0] << 24) | (o[1] << 16) | (o[2] << 8) | o[3]
        d = (8 - plen % 8) % 8
        q = plen + d
        g = q // 8
        want = []
        for k in range(1 << d):
            s = a + k * (1 << (32 - q))
            octs = [(s >> 24) & 255, (s >> 16) & 255, (s >> 8) & 255, s & 255]
            want.append(w if g == 0 else ".".join(map(str, octs)) if g == 4 else ".".join(map(str, octs[:g])) + "." + w)
        got = SigmaCIDRExpression(cidr).expand(w)
        return None if got == want else f"SigmaCIDRExpression({cidr!r}).expand({w!r}) = {got[:4]}{'...' if len(got) > 4 else ''}, the specification gives {want[:4]}{'...' if len(want) > 4 else ''}"


@register
class CIDRv4Arithmetic(Lemma):
    """match sets: the patterns of the 2^d sub-networks match exactly [a, a + 2^(32-p)), pairwise disjoint - for every prefix length"""
    id = "C18.lemma.ipv4_match_sets"
    props = ("C18",)
    assumed = ["a dotted quad x matches the pattern 'o1.….og.<wildcard>' iff its first g octets are o1..og, i.e. x >> (32-8g) == subnet >> (32-8g) (decimal rendering is injective; the trailing dot separates octets)",
               "network.subnets(d) are the 2^d consecutive sub-networks a + k*2^(32-p-d), k ascending (ipaddress documentation)"]

    def goals(self):
        a, x, k, k2 = z3.Ints("a x k k2")
        out = []
        for p in range(33):
            d = (8 - p % 8) % 8
            q = p + d
            g = q // 8
            Sz = 2 ** (32 - q)          # size of a sub-network == weight of the last fixed octet
            N = 2 ** (32 - p)
            dom = [a >= 0, a < 2 ** 32, a % N == 0, x >= 0, x < 2 ** 32]
            match = lambda kk: x / Sz == (a + kk * Sz) / Sz
            out.append((f"/{p}: sound (matched by sub-network k => inside the network)", dom + [k >= 0, k < 2 ** d, match(k)], z3.And(a <= x, x < a + N)))
            wit = (x - a) / Sz
            out.append((f"/{p}: complete (inside the network => matched by sub-network (x-a)/size)", dom + [a <= x, x < a + N], z3.And(wit >= 0, wit < 2 ** d, match(wit))))
            out.append((f"/{p}: irredundant (distinct sub-networks have disjoint match sets)", dom + [k >= 0, k < 2 ** d, k2 >= 0, k2 < 2 ** d, k != k2], z3.Not(z3.And(match(k), match(k2)))))
            out.append((f"/{p}: number of fixed octets == (p+d)//8 and sub-network addresses are octet aligned", dom + [k >= 0, k < 2 ** d], z3.And(z3.IntVal(g) == (p + d) / 8, (a + k * Sz) % Sz == 0, Sz == 256 ** (4 - g))))
        return out


@register
class CIDRConvertNative(Contract):
    """a backend with a native CIDR expression receives the normalised network, network address, prefix length and netmask of the
    parsed value unchanged; without one, the OR of the expanded patterns (each as a Sigma string) is converted"""
    id = "C18.convert_condition_field_eq_val_cidr"
    target = "sigma.conversion.base:TextQueryBackend.convert_condition_field_eq_val_cidr"
    props = ("C18",)
    cases = ("native", "expand", "expand-under-not", "expand-under-and")
    assumed = ["templates are opaque: the contract is about which values are passed", "expand() summarised by a list of two patterns in the expansion case (element count unrolled)"]

    def setup(self, E):
        E.summaries["sigma.types:SigmaString"] = lambda I, so, a, k: SObj("SigmaStringOf", {"src": a[0] if a else None})
        E.summaries["sigma.conversion.base:Backend.convert_condition"] = lambda I, so, a, k: SObj("converted", {"cond": a[0], "state": a[1], "grouped": False})
        E.summaries["sigma.conversion.base:TextQueryBackend.convert_condition_group"] = lambda I, so, a, k: SObj("converted", {"cond": a[0], "state": a[1], "grouped": True})
        E.summaries["sigma.conversion.base:Backend.decide_convert_condition_as_in_expression"] = lambda I, so, a, k: so.ghost["as_in"]

    def args(self, I, case):
        cap = {}

        def fmt(I2, a, k):
            cap.update(k)
            return I2.fresh("query", "str")
        net = SObj("IPNetwork", {"network_address": I.fresh("naddr", "opaque", "Addr"), "prefixlen": I.fresh("plen", "int"), "netmask": I.fresh("mask", "opaque", "Addr")})
        net.ghost["str"] = I.fresh("net_str", "str")
        pats = [I.fresh("pat0", "str"), I.fresh("pat1", "str")]
        cidr = SObj(I.E.index.lookup("sigma.types:SigmaCIDRExpression"), {"network": net, "cidr": I.fresh("cidr_text", "str"), "expand": NativeFn("expand", lambda I2, a, k: list(pats) if not a and not k else (_ for _ in ()).throw(OutsideSubset("expand with arguments")))}, lazy=True)
        # the context of the comparison: no parent / directly under NOT / directly under AND - the contexts in which an
        # ungrouped OR of the patterns would be bound differently
        parent = None
        if case != "native" and case != "expand":
            parent = SObj(I.E.index.lookup("sigma.conditions:ConditionNOT"), {"args": [], "source": None, "parent": None})
            if case == "expand-under-and":
                parent = SObj(I.E.index.lookup("sigma.conditions:ConditionAND"), {"args": [], "source": None, "parent": None})
        cond = SObj(I.E.index.lookup("sigma.conditions:ConditionFieldEqualsValueExpression"), {"field": I.fresh("field", "str"), "value": cidr, "source": None, "parent": parent}, lazy=True)
        me = SObj(I.E.index.lookup("sigma.conversion.base:TextQueryBackend"), {"cidr_expression": SObj("Template", {"format": NativeFn("format", fmt)}) if case == "native" else None}, lazy=True)
        st = I.fresh("state", "opaque", "State")
        me.ghost["as_in"] = I.fresh("as_in_list", "bool")
        return {"self": me, "args": [cond, st], "cap": cap, "net": net, "cond": cond, "pats": pats, "case": case, "state": st}

    def post(self, I, inp, r):
        c, cap, net = I.ctx, inp["cap"], inp["net"]
        if inp["case"] == "native":
            c.require(set(cap) == {"field", "value", "network", "prefixlen", "netmask"}, "the native template receives field, value, network, prefixlen, netmask")
            c.require(cap.get("value") is net.ghost["str"], "value == str(normalised network)")
            c.require(cap.get("network") is net.fields["network_address"] and cap.get("prefixlen") is net.fields["prefixlen"] and cap.get("netmask") is net.fields["netmask"],
                      "network address, prefix length and netmask of the parsed value are passed unchanged")
            c.require(cap.get("field") is inp["cond"].fields["field"], "the field of the condition is passed")
        else:
            cond = r.fields.get("cond") if isinstance(r, SObj) else None
            ok = isinstance(cond, SObj) and getattr(cond.cls, "name", "") == "ConditionOR"
            c.require(ok, "the expansion is converted as one OR condition")
            if ok:
                args_ = cond.fields.get("args")
                good = isinstance(args_, list) and len(args_) == 2 and all(isinstance(x, SObj) and x.fields.get("field") is inp["cond"].fields["field"] and isinstance(x.fields.get("value"), SObj)
                                                                          and x.fields["value"].fields.get("src") is p for x, p in zip(args_, inp["pats"]))
                c.require(good, "one field == SigmaString(pattern) comparison per expanded pattern, same field, in order")
                c.require(r.fields.get("state") is inp["state"], "conversion state passed on")
                if inp["case"] == "expand":      # no parent: the grouping is not needed for the meaning, only the in-list case is pinned
                    c.require(z3.Implies(inp["self"].ghost["as_in"].t, z3.BoolVal(not r.fields.get("grouped"))), "an expansion folded into an in-list is not grouped")
                else:
                    c.require(z3.BoolVal(bool(r.fields.get("grouped"))) == z3.Not(inp["self"].ghost["as_in"].t), "an expansion into several patterns is grouped unless it is folded into an in-list (it is an OR inside an unknown context)")

    def frame_ok(self, I, inp, obj, name):
        return False


@register
class CIDRPostInit(Contract):
    """SigmaCIDRExpression.__post_init__: the network is what the standard library's ip_network (either address family, every spelling it
    accepts - mixed IPv6 notation with a dotted-quad tail, netmask notation, bare addresses) gives for the text; what it rejects is a
    Sigma type error carrying the source"""
    id = "C18.SigmaCIDRExpression.__post_init__"
    target = "sigma.types:SigmaCIDRExpression.__post_init__"
    props = ("C18", "C03")
    cases = ("valid", "invalid")
    assumed = ["ipaddress.ip_network is external (trusted): its verdict on the text is symbolic; IPv4Network / IPv6Network are the one-family parsers, distinct from it"]

    def setup(self, E):
        from pyvc.interp import PyRaise
        calls = []
        E._c18_calls = calls

        def parser(kind):
            def f(I, a, k):
                calls.append((kind, list(a), dict(k)))
                if E._c18_case == "invalid":
                    raise PyRaise(ExcValue("ValueError", ("does not appear to be an IPv4 or IPv6 network",)))
                return SObj("Network", {"kind": kind, "text": a[0]})
            return f
        for mod in ("ipaddress", "sigma.types"):
            E.externals[f"{mod}.ip_network"] = parser("either family")
            E.externals[f"{mod}.IPv4Network"] = parser("IPv4 only")
            E.externals[f"{mod}.IPv6Network"] = parser("IPv6 only")

    def args(self, I, case):
        I.E._c18_case = case
        del I.E._c18_calls[:]
        text, src = I.fresh("cidr", "str"), SObj("Location", {})
        me = SObj(I.E.index.lookup("sigma.types:SigmaCIDRExpression"), {"cidr": text, "source": src})
        return {"self": me, "args": [], "text": text, "src": src, "case": case}

    def post(self, I, inp, r):
        c = I.ctx
        c.require(inp["case"] == "valid", "a text the standard library rejects is not accepted")
        n = inp["self"].fields.get("network")
        ok = isinstance(n, SObj) and n.cls == "Network" and n.fields["text"] is inp["text"] and I.E._c18_calls[-1][2] in ({}, {"strict": True})
        c.require(ok, "the network is parsed by the standard library from the text itself, host bits rejected")
        if ok and n.fields["kind"] != "either family":
            # a one-family parser is ip_network exactly when the family is chosen by the colon (every IPv6 spelling has one, no IPv4 spelling does)
            colon = z3.Contains(inp["text"].t, z3.StringVal(":"))
            c.require(colon if n.fields["kind"] == "IPv6 only" else z3.Not(colon),
                      f"the network is ip_network(text): the {n.fields['kind']} parser is used only for texts of that family (IPv6 spellings may end in a dotted quad, IPv4 ones may carry a netmask)")

    def model_terms(self, inp):
        return {"cidr": inp["text"].t}

    def raises(self, I, inp, exc):
        c = I.ctx
        c.require(inp["case"] == "invalid" and exc_is(I, exc, "SigmaTypeError"), f"a rejected text is a SigmaTypeError, a valid one is accepted (got {exc_name(exc)})")
        if isinstance(exc, SObj):
            c.require(exc.fields.get("source") is inp["src"], "the error carries the source of the value")

    def frame_ok(self, I, inp, obj, name):
        return obj is inp["self"] and name == "network"

    def candidates(self):
        return ({"cidr": t} for t in ("64:ff9b::10.0.0.0/104", "::ffff:10.0.0.0/104", "10.0.0.0/255.0.0.0", "10.0.0.0/8", "2001:db8::/32", "1.2.3.4", "::1", "10.0.0.1/8", "x", "1.2.3/8", "::/129", "2001:0DB8::/32", "2001:db8:0:0::/64"))

    def replay(self, values):
        if "cidr" not in values:
            return None
        import ipaddress
        from sigma.types import SigmaCIDRExpression
        from sigma.exceptions import SigmaTypeError
        t = values["cidr"]
        try:
            want = ipaddress.ip_network(t)
        except ValueError:
            want = None
        try:
            e = SigmaCIDRExpression(t)
            got = e.network
            if e.cidr != t:
                return f"SigmaCIDRExpression({t!r}): the expression no longer carries the written text (cidr = {e.cidr!r}); the cidr modifier keeps the content of the value"
        except SigmaTypeError:
            got = None
        return None if got == want else f"SigmaCIDRExpression({t!r}): network {got}, the standard library gives {want}"
