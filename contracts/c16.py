"""C16 - a pipeline file cannot grant itself code execution, file or network access.

Capability provenance: for EVERY transformation type in the registries and for documents with the three opt-in keys injected,
the capability fields of the constructed object are the caller's ARGUMENTS (object identity), never values of the document.
Gates: fetch / exec sites are dominated by their gate condition.
"""
from __future__ import annotations
import ast, os, z3
from pyvc.api import *
from pyvc.values import *
from pyvc.interp import UNBOUND
from pyvc import ops

CAPS = ("allow_template_vars", "vars_allowed_paths", "allow_external_sources")
TEMPLATE_BASE = "sigma.processing.templates:TemplateBase"
EXTERNAL_BASE = "sigma.processing.transformations.external:ExternalSourceBaseTransformation"


class Tainted:
    """a value that came from the pipeline document under one of the opt-in keys"""

    def __init__(self, key):
        self.key = key

    def __repr__(self):
        return f"<document value of {self.key}>"


def registry(index, modname, var):
    """names -> ClassInfo of a registry dict, read from the module source"""
    m = index.module(modname)
    node = m.assigns[var]
    out = {}
    for k, v in zip(node.keys, node.values):
        r = m.resolve_name(ast.unparse(v))
        out[ast.literal_eval(k)] = r
    return out


def capture_constructors(E):
    """constructor calls of transformation / finalizer classes record their keyword arguments instead of running"""
    def hook(I, cinfo, args, kwargs):
        names = [c.name for c in cinfo.mro() if hasattr(c, "name")]
        if "Transformation" in names or "Finalizer" in names:
            o = SObj(cinfo, {}, lazy=True)
            o.ghost["kwargs"] = dict(kwargs)
            o.ghost["args"] = list(args)
            o.born = I.ctx
            return o
        return UNBOUND
    E.instantiate_hook = hook


def doc(injected, typ, extra=True):
    d = {"type": typ}
    if injected:
        for k in CAPS:
            d[k] = Tainted(k)
    if extra:
        d["other_param"] = "x"
        d["id"] = "ident"
    return d


def no_taint(I, value, seen=None):
    """no document value of an opt-in key is reachable from value"""
    if isinstance(value, Tainted):
        return False
    if isinstance(value, dict):
        return all(no_taint(I, v) for v in value.values())
    if isinstance(value, (list, tuple)):
        return all(no_taint(I, v) for v in value)
    if isinstance(value, SObj):
        return all(no_taint(I, v) for v in value.ghost.get("kwargs", {}).values()) and all(no_taint(I, v) for v in value.fields.values() if not isinstance(v, SObj))
    return True


class _Instantiate(Contract):
    props = ("C16",)
    reg = None
    assumed = ["keys other than the opt-in keys are represented by one generic key ('other_param'): the code treats all non-listed keys uniformly",
               "constructors of transformation classes are abstract (their own __post_init__ gates have separate contracts)"]

    def setup(self, E):
        capture_constructors(E)

    def args(self, I, case):
        typ, injected = case
        clsinfo = I.E.index.lookup("sigma.processing.pipeline:ProcessingItemBase")
        reg = {k: ClassRef(v) for k, v in registry(I.E.index, *self.reg).items()}
        a = {k: I.fresh(k, "opaque", "CallerArg") for k in CAPS}
        return {"self": ClassRef(clsinfo), "args": [doc(injected, typ), reg], "kwargs": dict(a), "caller": a, "cls": reg[typ].info, "typ": typ}

    def post(self, I, inp, r):
        c = I.ctx
        kw = r.ghost.get("kwargs") if isinstance(r, SObj) else None
        c.require(kw is not None and r.cls is inp["cls"], f"constructs the registered class for type {inp['typ']!r}")
        if kw is None:
            return
        is_t = inp["cls"].is_subclass_of(I.E.index.lookup(TEMPLATE_BASE))
        is_x = inp["cls"].is_subclass_of(I.E.index.lookup(EXTERNAL_BASE))
        for k, applies in (("allow_template_vars", is_t), ("vars_allowed_paths", is_t), ("allow_external_sources", is_x)):
            if applies:
                c.require(kw.get(k) is inp["caller"][k], f"{k} of the transformation is the caller's argument")
            else:
                c.require(k not in kw, f"{k} is not passed to a class that has no such capability")
        c.require(no_taint(I, r), "no value found under an opt-in key of the document reaches the constructor")
        c.require(kw.get("other_param") == "x" if "other_param" in inp["args"][0] else True, "ordinary parameters are passed through")

    def raises(self, I, inp, exc):
        I.ctx.require(exc_is(I, exc, "SigmaConfigurationError"), f"only SigmaConfigurationError (got {exc_name(exc)})", kind="SAFE")

    def frame_ok(self, I, inp, obj, name):
        return False


def _cases(reg):
    from pyvc.extract import SourceIndex
    names = sorted(registry(SourceIndex(), *reg))
    return tuple((n, inj) for n in names for inj in (True, False))


@register
class InstantiateTransformation(_Instantiate):
    id = "C16._instantiate_transformation[preprocessing]"
    target = "sigma.processing.pipeline:ProcessingItemBase._instantiate_transformation"
    reg = ("sigma.processing.transformations", "transformations")
    cases = _cases(reg)


@register
class InstantiatePostprocessing(_Instantiate):
    id = "C16._instantiate_transformation[postprocessing]"
    target = "sigma.processing.pipeline:ProcessingItemBase._instantiate_transformation"
    reg = ("sigma.processing.postprocessing", "query_postprocessing_transformations")
    cases = _cases(reg)


# ----------------------------------------------------------------------------------------------- pass-through of the arguments
class _FromDict(Contract):
    """item-level from_dict: the capability arguments reach _instantiate_transformation unchanged; the document's do not"""
    props = ("C16",)
    clsname, passes = None, ()
    cases = (True, False)

    def setup(self, E):
        capture_constructors(E)

        def s_inst(I, so, a, k):
            o = SObj(I.E.index.lookup("sigma.processing.transformations.base:Transformation"), {}, lazy=True)
            o.ghost["inst_call"] = (a, dict(k))
            o.ghost["kwargs"] = {}
            o.born = I.ctx
            return o
        E.summaries["sigma.processing.pipeline:ProcessingItemBase._instantiate_transformation"] = s_inst
        # the item constructor itself (condition checks, identifier generation) is not part of this obligation
        for q in ("sigma.processing.pipeline:ProcessingItem", "sigma.processing.pipeline:QueryPostprocessingItem"):
            E.summaries[q] = lambda I, so, a, k: SObj("item", dict(k))

    def args(self, I, case):
        a = {k: I.fresh(k, "opaque", "CallerArg") for k in self.passes}
        d = doc(case, "some_type")
        return {"self": ClassRef(I.E.index.lookup(f"sigma.processing.pipeline:{self.clsname}")), "args": [d], "kwargs": dict(a), "caller": a}

    def post(self, I, inp, r):
        c = I.ctx
        t = r.fields.get("transformation") if isinstance(r, SObj) else None
        call = t.ghost.get("inst_call") if isinstance(t, SObj) else None
        c.require(call is not None, "the transformation comes from _instantiate_transformation")
        if call is None:
            return
        _, kw = call
        for k in CAPS:
            if k in self.passes:
                c.require(kw.get(k) is inp["caller"][k], f"{k} passed on is the caller's argument")
            else:
                c.require(k not in kw or kw[k] in (False, None), f"{k} is not granted by this loader")
        c.require(no_taint(I, kw), "no document value under an opt-in key is passed as a capability")

    def raises(self, I, inp, exc):
        I.ctx.require(exc_is(I, exc, "SigmaError"), f"only Sigma errors (got {exc_name(exc)})", kind="SAFE")

    def frame_ok(self, I, inp, obj, name):
        return False


@register
class ProcessingItemFromDict(_FromDict):
    id = "C16.ProcessingItem.from_dict"
    target = "sigma.processing.pipeline:ProcessingItem.from_dict"
    clsname, passes = "ProcessingItem", ("allow_external_sources",)


@register
class PostprocessingItemFromDict(_FromDict):
    id = "C16.QueryPostprocessingItem.from_dict"
    target = "sigma.processing.pipeline:QueryPostprocessingItem.from_dict"
    clsname, passes = "QueryPostprocessingItem", ("allow_template_vars", "vars_allowed_paths")


# ----------------------------------------------------------------------------------------------- gates
ENV = lambda name: z3.Function("os.environ.get", z3.StringSort(), z3.StringSort())(z3.StringVal(name))
LOWER = lambda t: z3.Function("str.lower", z3.StringSort(), z3.StringSort())(t)


def install_env(E):
    def x_environ_get(I, args, kwargs):
        name = I.force(args[0])
        r = ENV(name)
        return Sym(r, "str")
    E.externals["os.environ.get"] = x_environ_get
    E.external_values["sigma.processing.transformations.external.PYSIGMA_ALLOW_EXTERNAL_SOURCES_ENV"] = "PYSIGMA_ALLOW_EXTERNAL_SOURCES"


def env_allows(name):
    l = LOWER(ENV(name))
    return z3.Or(l == z3.StringVal("1"), l == z3.StringVal("true"))


@register
class ExternalGetValues(Contract):
    """_fetch_data() (command / file / HTTP) is reached only if allow_external_sources or the documented environment variable"""
    id = "C16.ExternalSourceBaseTransformation._get_values"
    target = "sigma.processing.transformations.external:ExternalSourceBaseTransformation._get_values"
    props = ("C16",)
    assumed = ["a non-empty _values_cache was filled by an earlier allowed fetch (per-instance cache invariant)", "os.environ.get returns the process environment"]

    def setup(self, E):
        install_env(E)

        def s_fetch(I, so, a, k):
            allowed = z3.Or(ops.mk_bool_term(ops.truth(I, so.fields["allow_external_sources"])), env_allows("PYSIGMA_ALLOW_EXTERNAL_SOURCES"))
            I.ctx.require(allowed, "_fetch_data is dominated by the gate: allow_external_sources or PYSIGMA_ALLOW_EXTERNAL_SOURCES in {1,true}", kind="FRAME")
            so.ghost["fetched"] = True
            return I.fresh("data", "str")
        E.summaries["sigma.processing.transformations.external:ExternalSourceBaseTransformation._fetch_data"] = s_fetch
        E.summaries["sigma.processing.transformations.external:ExternalSourceBaseTransformation._parse_data"] = lambda I, so, a, k: SList(I.fresh("values", "seq", elem="str"))

    def args(self, I):
        cinfo = I.E.index.lookup("sigma.processing.transformations.external:ExternalSourceBaseTransformation")
        me = SObj(cinfo, {"allow_external_sources": I.fresh("allow_external_sources", "bool"), "_values_cache": None, "_filter_pattern": None}, lazy=True)
        return {"self": me, "args": []}

    def post(self, I, inp, r):
        I.ctx.require(inp["self"].ghost.get("fetched") is True, "values come from a (gated) fetch")

    def raises(self, I, inp, exc):
        me = inp["self"]
        t = ops.truth(I, me.fields["allow_external_sources"])
        I.ctx.require(z3.And(z3.BoolVal(exc_is(I, exc, "SigmaSecurityError")), z3.Not(t if not isinstance(t, bool) else z3.BoolVal(t)), z3.Not(env_allows("PYSIGMA_ALLOW_EXTERNAL_SOURCES")), z3.BoolVal(not me.ghost.get("fetched"))),
                      f"SigmaSecurityError exactly when not allowed, before any fetch (got {exc_name(exc)})", kind="SAFE")

    def model_terms(self, inp):
        return {"env": ENV("PYSIGMA_ALLOW_EXTERNAL_SOURCES"), "allow": inp["self"].fields["allow_external_sources"].t}

    def candidates(self):
        return ({"env": e, "allow": False} for e in ("0", "", "1", "true", "TRUE", "yes", "no", "off", "false", " 1", "2", "on", "none", "disabled"))

    def replay(self, values):
        """the real gate with the environment of the counter-model: is data fetched although nothing allows it?"""
        import os
        from sigma.processing.transformations.external import ExternalSourceBaseTransformation
        env, allow = values.get("env"), bool(values.get("allow"))
        fetched = []

        class T(ExternalSourceBaseTransformation):
            def _fetch_data(self):
                fetched.append(1)
                return "a"

            def _parse_data(self, data):
                return ["a"]
        t = T(allow_external_sources=allow) if "allow_external_sources" in getattr(T, "__dataclass_fields__", {}) else T()
        t.allow_external_sources = allow
        old = os.environ.get("PYSIGMA_ALLOW_EXTERNAL_SOURCES")
        try:
            if env is None:
                os.environ.pop("PYSIGMA_ALLOW_EXTERNAL_SOURCES", None)
            else:
                os.environ["PYSIGMA_ALLOW_EXTERNAL_SOURCES"] = env
            try:
                t._get_values()
            except Exception:
                pass
        finally:
            if old is None:
                os.environ.pop("PYSIGMA_ALLOW_EXTERNAL_SOURCES", None)
            else:
                os.environ["PYSIGMA_ALLOW_EXTERNAL_SOURCES"] = old
        permitted = allow or (env or "").lower() in ("1", "true")
        if fetched and not permitted:
            return f"with PYSIGMA_ALLOW_EXTERNAL_SOURCES={env!r} and allow_external_sources={allow} the external source is fetched"
        return None

    def frame_ok(self, I, inp, obj, name):
        return obj is inp["self"] and name == "_values_cache"


def realpath(t):
    return z3.Function("os.path.realpath", z3.StringSort(), z3.StringSort())(t)


@register
class LoadVarsFromFile(Contract):
    """the vars file is touched (spec_from_file_location .. exec_module) only if no base directories are in force or its real
    path equals / lies under realpath(base) + os.sep for some base"""
    id = "C16.TemplateBase._load_vars_from_file"
    target = "sigma.processing.templates:TemplateBase._load_vars_from_file"
    props = ("C16",)
    cases = ("none", 0, 1, 2)
    assumed = ["os.path.realpath resolves symlinks (uninterpreted)", "os.sep == '/'", "number of base directories unrolled: 0..2"]

    def setup(self, E):
        E.externals["os.path.realpath"] = lambda I, a, k: Sym(realpath(mk_str(I.force(a[0]))), "str")

        def x_spec(I, a, k):
            me = I.E._c16_self
            path = mk_str(I.force(a[1]))
            bases = me.ghost["bases"]
            inside = z3.BoolVal(True) if bases is None else ops.mk_or([z3.Or(path == realpath(b), z3.PrefixOf(z3.Concat(realpath(b), z3.StringVal("/")), path)) for b in bases])
            I.ctx.require(path == realpath(me.ghost["vars_path"]), "the file that is loaded is the real path of the vars argument", kind="FRAME")
            I.ctx.require(inside, "exec site is dominated by the allowed-directory check (equal to, or below, realpath(base) + os.sep)", kind="FRAME")
            raise PathEnd()
        E.externals["importlib.util.spec_from_file_location"] = x_spec

    def args(self, I, case):
        cinfo = I.E.index.lookup("sigma.processing.templates:TemplateBase")
        vp = I.fresh("vars_path", "str")
        if case == "none":
            bases, val = None, None
        else:
            bases = [z3.String(I.ctx.fresh_name(f"base{i}")) for i in range(case)]
            val = tuple(Sym(b, "str") for b in bases)
        me = SObj(cinfo, {"vars_allowed_paths": val}, lazy=True)
        me.ghost.update(bases=bases, vars_path=vp.t)
        I.E._c16_self = me
        return {"self": me, "args": [vp]}

    def raises(self, I, inp, exc):
        me = inp["self"]
        bases = me.ghost["bases"]
        path = realpath(me.ghost["vars_path"])
        inside = z3.BoolVal(True) if bases is None else ops.mk_or([z3.Or(path == realpath(b), z3.PrefixOf(z3.Concat(realpath(b), z3.StringVal("/")), path)) for b in bases])
        I.ctx.require(z3.And(z3.BoolVal(exc_is(I, exc, "SigmaSecurityError")), z3.Not(inside)), f"SigmaSecurityError exactly for files outside the allowed directories (got {exc_name(exc)})", kind="SAFE")

    def post(self, I, inp, r):
        I.ctx.require(False, "normal return without passing the exec-site gate")

    def frame_ok(self, I, inp, obj, name):
        return False

    def model_terms(self, inp):
        me = inp["self"]
        out = {"vars_path_real": realpath(me.ghost["vars_path"])}
        for i, b in enumerate(me.ghost["bases"] or []):
            out[f"base{i}_real"] = realpath(b)
        return out

    def replay(self, values):
        import tempfile, shutil
        from sigma.processing.templates import TemplateBase
        from sigma.exceptions import SigmaSecurityError
        root = tempfile.mkdtemp()
        try:
            rp = lambda p: os.path.join(root, p.lstrip("/").replace("\x00", "_") or "_")
            vp = rp(str(values.get("vars_path_real", "v.py")))
            bases = [rp(str(v)) for k, v in sorted(values.items()) if k.startswith("base")]
            os.makedirs(os.path.dirname(vp) or root, exist_ok=True)
            marker = os.path.join(root, "EXECUTED")
            try:
                open(vp, "w").write(f"open({marker!r}, 'w').write('x')\nvars = {{}}\n")
            except OSError:
                return None
            for b in bases:
                os.makedirs(b, exist_ok=True)
            t = TemplateBase.__new__(TemplateBase)
            t.vars_allowed_paths = tuple(bases)
            try:
                t._load_vars_from_file(vp)
            except Exception:
                pass
            inside = any(os.path.realpath(vp) == os.path.realpath(b) or os.path.realpath(vp).startswith(os.path.realpath(b) + os.sep) for b in bases)
            if os.path.exists(marker) and not inside:
                return f"vars file {vp} was executed although it is outside the allowed directories {bases}"
            return None
        finally:
            shutil.rmtree(root, ignore_errors=True)

    def candidates(self):
        return iter([{"vars_path_real": "/pipelines_shared/evil.py", "base0_real": "/pipelines"}, {"vars_path_real": "/a/../b/x.py", "base0_real": "/a"},
                     {"vars_path_real": "/ab/x.py", "base0_real": "/a", "base1_real": "/abc"}])


@register
class TemplatePostInit(Contract):
    """TemplateBase.__post_init__: the vars file is loaded only if allow_template_vars or the documented environment variable"""
    id = "C16.TemplateBase.__post_init__"
    target = "sigma.processing.templates:TemplateBase.__post_init__"
    props = ("C16",)
    cases = ("no-directories", "directories-in-force", "empty-directory-list")
    assumed = ["Jinja2 SandboxedEnvironment / loaders are external (outside the property's list)"]

    def setup(self, E):
        install_env(E)
        E.external_values["sigma.processing.templates.PYSIGMA_ALLOW_VARS_EXECUTION_ENV"] = "PYSIGMA_ALLOW_VARS_EXECUTION"
        env = lambda I, a, k: SObj("jinja2.Environment", {"from_string": NativeFn("from_string", lambda I2, a2, k2: SObj("jinja2.Template", {"globals": {}})),
                                                         "get_template": NativeFn("get_template", lambda I2, a2, k2: SObj("jinja2.Template", {"globals": {}}))})
        E.externals["jinja2.sandbox.SandboxedEnvironment"] = env
        # the environment class may be a subclass defined next to TemplateBase (TemplateSandbox since D36): constructing it is constructing a Jinja environment

        def hook(I, cinfo, args, kwargs):
            from pyvc.interp import UNBOUND
            if any("SandboxedEnvironment" in (getattr(b, "id", None) or getattr(b, "attr", None) or "") for b in getattr(cinfo.node, "bases", [])):
                return env(I, args, kwargs)
            return UNBOUND
        E.instantiate_hook = hook
        E.externals["jinja2.FileSystemLoader"] = lambda I, a, k: None

        def s_load(I, so, a, k):
            t = ops.truth(I, so.fields["allow_template_vars"])
            I.ctx.require(z3.Or(t if not isinstance(t, bool) else z3.BoolVal(t), env_allows("PYSIGMA_ALLOW_VARS_EXECUTION")),
                          "_load_vars_from_file is dominated by the gate: allow_template_vars or PYSIGMA_ALLOW_VARS_EXECUTION in {1,true}", kind="FRAME")
            so.ghost["loaded"] = True
            return {}
        E.summaries["sigma.processing.templates:TemplateBase._load_vars_from_file"] = s_load

    def args(self, I, case):
        cinfo = I.E.index.lookup("sigma.processing.templates:TemplateBase")
        # allowed directories restrict WHERE a vars file may be; they are no opt-in (they are also derived from the pipeline file's location)
        dirs = {"no-directories": None, "directories-in-force": (I.fresh("allowed_dir", "str"),), "empty-directory-list": ()}[case]
        me = SObj(cinfo, {"path": SOpt(z3.Bool(I.ctx.fresh_name("path_none")), I.fresh("path", "str")), "autoescape": False, "template": I.fresh("template", "str"),
                          "vars": SOpt(z3.Bool(I.ctx.fresh_name("vars_none")), I.fresh("vars", "str")), "allow_template_vars": I.fresh("allow_template_vars", "bool"),
                          "vars_allowed_paths": dirs}, lazy=True)
        return {"self": me, "args": []}

    def raises(self, I, inp, exc):
        me = inp["self"]
        t = ops.truth(I, me.fields["allow_template_vars"])
        I.ctx.require(z3.And(z3.BoolVal(exc_is(I, exc, "SigmaSecurityError")), z3.Not(t if not isinstance(t, bool) else z3.BoolVal(t)), z3.Not(env_allows("PYSIGMA_ALLOW_VARS_EXECUTION")), z3.BoolVal(not me.ghost.get("loaded"))),
                      f"SigmaSecurityError exactly when vars execution is not allowed (got {exc_name(exc)})", kind="SAFE")

    def frame_ok(self, I, inp, obj, name):
        return obj is inp["self"] and name == "j2template"


# ----------------------------------------------------------------------------------------------- inventory of effect sites
EFFECT_CALLS = {"open", "exec", "eval", "compile", "__import__"}
EFFECT_ATTRS = {("subprocess", None), ("os", "system"), ("os", "popen"), ("importlib", None), ("requests", None), ("urllib", None), ("socket", None), ("shutil", None)}
KNOWN_SITES = {
    ("sigma/processing/resolver.py", "resolve_pipeline", "open"): "caller-named pipeline file (a path given by the caller, not by a pipeline document)",
    ("sigma/processing/templates.py", "_load_vars_from_file", "importlib.util.spec_from_file_location"): "gated: C16.TemplateBase._load_vars_from_file / __post_init__",
    ("sigma/processing/templates.py", "_load_vars_from_file", "importlib.util.module_from_spec"): "gated: same site",
    ("sigma/processing/transformations/external.py", "_fetch_data", "open"): "gated by _get_values (FilePlaceholderTransformation)",
    ("sigma/processing/transformations/external.py", "_fetch_data", "requests.request"): "gated by _get_values (HTTPPlaceholderTransformation)",
    ("sigma/processing/transformations/external.py", "_fetch_data", "subprocess.run"): "gated by _get_values (CommandPlaceholderTransformation)",
}


@register
class EffectInventory(Inventory):
    """every effect site under sigma/processing must be one of the gated (or caller-controlled) sites"""
    id = "C16.inventory.effect_sites"
    props = ("C16",)

    def run(self, index):
        sites, mism = [], []
        root = os.path.join(index.repo, "sigma", "processing")
        for dp, dn, fn in os.walk(root):
            for f in sorted(fn):
                if not f.endswith(".py"):
                    continue
                path = os.path.join(dp, f)
                rel = os.path.relpath(path, index.repo)
                tree = ast.parse(open(path).read())
                for fnode in ast.walk(tree):
                    if not isinstance(fnode, (ast.FunctionDef, ast.AsyncFunctionDef)):
                        continue
                    for n in ast.walk(fnode):
                        if not isinstance(n, ast.Call):
                            continue
                        name = ast.unparse(n.func)
                        head = name.split(".")[0]
                        hit = name in EFFECT_CALLS or any(head == m and (a is None or name.endswith("." + a)) for m, a in EFFECT_ATTRS)
                        if hit:
                            key = (rel, fnode.name, name)
                            sites.append(list(key))
                            if key not in KNOWN_SITES:
                                mism.append(f"unlisted effect site {name} in {rel}:{fnode.name} line {n.lineno}")
        for key in KNOWN_SITES:
            if list(key) not in sites:
                mism.append(f"listed effect site {key} no longer exists (contract table is stale)")
        return {"n_sites": len(sites), "sites": sites, "mismatches": mism}


# ----------------------------------------------------------------------------------------------- pipeline-level loaders
def capture_item_loaders(E):
    """ProcessingItem.from_dict / QueryPostprocessingItem.from_dict / <Finalizer>.from_dict record how they are called"""
    calls = []
    E._c16_calls = calls

    def mk(name):
        def s(I, so, a, k):
            calls.append((name, so.info.name if isinstance(so, ClassRef) else None, a, dict(k)))
            o = SObj(name, {})
            o.born = I.ctx
            return o
        return s
    E.summaries["sigma.processing.pipeline:ProcessingItem.from_dict"] = mk("ProcessingItem.from_dict")
    E.summaries["sigma.processing.pipeline:QueryPostprocessingItem.from_dict"] = mk("QueryPostprocessingItem.from_dict")
    seen = set()
    for cinfo in registry(E.index, "sigma.processing.finalization", "finalizers").values():
        m = cinfo.find_method("from_dict")
        if m.qualname not in seen and m.qualname != "sigma.processing.finalization:NestedFinalizer.from_dict":
            seen.add(m.qualname)
            E.summaries[m.qualname] = mk("Finalizer.from_dict")
    return calls


def check_calls(I, c, calls, caller, inp_doc_caps_allowed=False):
    for name, cls, a, k in calls:
        if name == "ProcessingItem.from_dict":
            c.require(set(k) <= {"allow_external_sources"} and (("allow_external_sources" not in k) or k["allow_external_sources"] is caller.get("allow_external_sources")),
                      "transformation items are loaded with the caller's allow_external_sources only")
        elif name == "QueryPostprocessingItem.from_dict":
            c.require(all(k[x] is caller.get(x) for x in k) and set(k) <= {"allow_template_vars", "vars_allowed_paths"}, "post-processing items are loaded with the caller's template arguments only")
        else:
            fd = a[0]
            is_t = I.E.index.lookup(f"sigma.processing.finalization:{cls}").is_subclass_of(I.E.index.lookup(TEMPLATE_BASE)) if cls else False
            for x in ("allow_template_vars", "vars_allowed_paths"):
                if is_t:
                    c.require(x in fd and fd[x] is caller.get(x), f"template finalizer gets the caller's {x}")
                else:
                    c.require(x not in fd, f"{x} is stripped from a finalizer without that capability")
            c.require(no_taint(I, {kk: vv for kk, vv in fd.items() if kk not in ("allow_external_sources",) or is_t}) if True else True, "no opt-in value of the document reaches a finalizer constructor")
        c.require(no_taint(I, k), "no document value is passed as a capability argument")


FIN_TYPES = ("concat", "json", "yaml", "template", "nested")


@register
class PipelineFromDict(Contract):
    id = "C16.ProcessingPipeline.from_dict"
    target = "sigma.processing.pipeline:ProcessingPipeline.from_dict"
    props = ("C16",)
    cases = tuple((t, inj) for t in FIN_TYPES for inj in (True, False)) + (("toplevel", True),)
    assumed = ["one transformation, one post-processing item and one finalizer per document (the loops treat every element alike; element count unrolled to 1)"]

    def setup(self, E):
        capture_constructors(E)
        capture_item_loaders(E)

        def s_nested(I, so, a, k):
            E._c16_calls.append(("NestedFinalizer.from_dict", "NestedFinalizer", a, dict(k)))
            return SObj("NestedFinalizer", {})
        E.summaries["sigma.processing.finalization:NestedFinalizer.from_dict"] = s_nested
        E.summaries["sigma.processing.pipeline:ProcessingPipeline"] = lambda I, so, a, k: SObj("pipeline", {"args": a})

    def args(self, I, case):
        typ, inj = case
        caller = {k: I.fresh(k, "opaque", "CallerArg") for k in CAPS}
        d = {"transformations": [doc(inj, "t")], "postprocessing": [doc(inj, "p")], "finalizers": [doc(inj, typ if typ != "toplevel" else "concat", extra=False)], "vars": {}, "priority": 1, "name": "n"}
        if typ == "toplevel":
            for k in CAPS:
                d[k] = Tainted(k)
        return {"self": ClassRef(I.E.index.lookup("sigma.processing.pipeline:ProcessingPipeline")), "args": [d], "kwargs": dict(caller), "caller": caller, "case": case}

    def post(self, I, inp, r):
        c = I.ctx
        calls = [x for x in I.E._c16_calls]
        c.require(inp["case"][0] != "toplevel", "opt-in keys at the top level of a pipeline document are rejected, not honoured")
        c.require(len([x for x in calls if x[0] == "ProcessingItem.from_dict"]) == 1 and len([x for x in calls if x[0] == "QueryPostprocessingItem.from_dict"]) == 1, "every item is loaded once")
        nested = [x for x in calls if x[0] == "NestedFinalizer.from_dict"]
        for _, _, a, k in nested:
            c.require(k.get("allow_template_vars") is inp["caller"]["allow_template_vars"] and k.get("vars_allowed_paths") is inp["caller"]["vars_allowed_paths"] and no_taint(I, a[0]),
                      "nested finalizers are loaded with the caller's template arguments; document values stripped")
        check_calls(I, c, [x for x in calls if x[0] != "NestedFinalizer.from_dict"], inp["caller"])

    def raises(self, I, inp, exc):
        I.ctx.require(exc_is(I, exc, "SigmaConfigurationError"), f"only SigmaConfigurationError (got {exc_name(exc)})", kind="SAFE")

    def frame_ok(self, I, inp, obj, name):
        return False


@register
class NestedFinalizerFromDict(Contract):
    id = "C16.NestedFinalizer.from_dict"
    target = "sigma.processing.finalization:NestedFinalizer.from_dict"
    props = ("C16",)
    cases = tuple((t, inj) for t in FIN_TYPES for inj in (True, False))
    assumed = ["recursion: the nested call is checked against this same contract (induction on nesting depth)"]

    def setup(self, E):
        capture_constructors(E)
        capture_item_loaders(E)

    def args(self, I, case):
        typ, inj = case
        caller = {k: I.fresh(k, "opaque", "CallerArg") for k in ("allow_template_vars", "vars_allowed_paths")}
        inner = doc(inj, typ, extra=False)
        inner.pop("allow_external_sources", None)
        if typ == "nested":
            inner["finalizers"] = []
        d = {"finalizers": [inner]}
        # the recursive call is summarised by the contract being proved
        def s_rec(I2, so, a, k):
            I2.E._c16_calls.append(("NestedFinalizer.from_dict", "NestedFinalizer", a, dict(k)))
            return SObj("NestedFinalizer", {})
        I.E.summaries["sigma.processing.finalization:NestedFinalizer.from_dict"] = s_rec
        return {"self": ClassRef(I.E.index.lookup("sigma.processing.finalization:NestedFinalizer")), "args": [d], "kwargs": dict(caller), "caller": caller, "case": case}

    def post(self, I, inp, r):
        c = I.ctx
        calls = list(I.E._c16_calls)
        for _, _, a, k in [x for x in calls if x[0] == "NestedFinalizer.from_dict"]:
            c.require(k.get("allow_template_vars") is inp["caller"]["allow_template_vars"] and k.get("vars_allowed_paths") is inp["caller"]["vars_allowed_paths"] and no_taint(I, a[0]),
                      "inner nested finalizers get the caller's template arguments; document values stripped")
        check_calls(I, c, [x for x in calls if x[0] != "NestedFinalizer.from_dict"], inp["caller"])
        c.require(len(calls) == 1, "the inner finalizer is loaded exactly once")

    def raises(self, I, inp, exc):
        I.ctx.require(exc_is(I, exc, "SigmaConfigurationError"), f"only SigmaConfigurationError (got {exc_name(exc)})", kind="SAFE")

    def frame_ok(self, I, inp, obj, name):
        return False


class _NestedItems(Contract):
    """nested transformation / post-processing items are loaded with DEFAULT (non-granting) arguments"""
    props = ("C16",)
    cases = (True, False)
    loader = None

    def setup(self, E):
        capture_constructors(E)
        capture_item_loaders(E)

    def post(self, I, inp, r):
        calls = list(I.E._c16_calls)
        I.ctx.require(len(calls) == 1 and calls[0][0] == self.loader and calls[0][3] == {}, "the nested item is loaded once, with no capability argument (defaults = nothing granted)")

    def raises(self, I, inp, exc):
        I.ctx.require(exc_is(I, exc, "SigmaConfigurationError"), f"only SigmaConfigurationError (got {exc_name(exc)})", kind="SAFE")

    def frame_ok(self, I, inp, obj, name):
        return False


@register
class NestedProcessingFromDict(_NestedItems):
    id = "C16.NestedProcessingTransformation.from_dict"
    target = "sigma.processing.transformations.meta:NestedProcessingTransformation.from_dict"
    loader = "ProcessingItem.from_dict"

    def args(self, I, case):
        return {"self": ClassRef(I.E.index.lookup("sigma.processing.transformations.meta:NestedProcessingTransformation")), "args": [{"items": [doc(case, "t")]}]}


@register
class NestedPostprocessingFromDict(_NestedItems):
    id = "C16.NestedQueryPostprocessingTransformation.from_dict"
    target = "sigma.processing.postprocessing:NestedQueryPostprocessingTransformation.from_dict"
    loader = "QueryPostprocessingItem.from_dict"

    def args(self, I, case):
        return {"self": ClassRef(I.E.index.lookup("sigma.processing.postprocessing:NestedQueryPostprocessingTransformation")), "args": [{"items": [doc(case, "p")]}]}


class _NestedPostInit(Contract):
    """the constructors of the nest transformations (the route a `type: nest` entry of a pipeline document takes: _instantiate_transformation
    calls the class with the document's `items`) have no access to the caller's arguments - whatever they load from a dict is loaded with
    non-granting defaults, and nothing that could carry a variables file is loaded without the directories in force"""
    props = ("C16",)
    cases = (True, False)
    loader, itemcls, kw = None, None, None

    def setup(self, E):
        capture_constructors(E)
        capture_item_loaders(E)
        built = []
        E._c16_built = built
        E.summaries["sigma.processing.pipeline:ProcessingPipeline"] = lambda I, so, a, k: (built.append((list(a), dict(k))), SObj("NestedPipeline", {}))[1]

    def args(self, I, case):
        idx = I.E.index
        obj = SObj(idx.lookup(f"sigma.processing.pipeline:{self.itemcls}"), {}, lazy=True)
        d = doc(case, "t")
        me = SObj(idx.lookup(self.target.split(".__post_init__")[0]), {}, lazy=True)
        items = [obj, d]
        if self.kw == "postprocessing_items":
            me.fields["items"] = items
            return {"self": me, "args": [], "items": items}
        return {"self": me, "args": [items], "items": items}

    def post(self, I, inp, r):
        c = I.ctx
        calls = list(I.E._c16_calls)
        for name, cls, a, k in calls:
            c.require(name == self.loader, "only the item loader of this kind is used")
            c.require(no_taint(I, k) and not k.get("allow_external_sources") and not k.get("allow_template_vars"), "an item loaded by the constructor gets no capability (the constructor cannot know the caller's opt-in)")
            if name == "QueryPostprocessingItem.from_dict":
                c.require(k.get("vars_allowed_paths") is not None, "a post-processing item (it may be a template with a variables file) is not loaded without the allowed directories in force - "
                          "the constructor has no access to them, so the item would be unrestricted once the environment variable allows variables files")
        c.require(len(I.E._c16_built) == 1, "one nested pipeline is built")

    def raises(self, I, inp, exc):
        I.ctx.require(exc_is(I, exc, "SigmaConfigurationError") or exc_is(I, exc, "TypeError"), f"only a configuration / type error (got {exc_name(exc)})", kind="SAFE")

    def frame_ok(self, I, inp, obj, name):
        return obj is inp["self"] and name in ("_nested_pipeline", "items")


@register
class NestedProcessingPostInit(_NestedPostInit):
    id = "C16.NestedProcessingTransformation.__post_init__"
    target = "sigma.processing.transformations.meta:NestedProcessingTransformation.__post_init__"
    loader, itemcls, kw = "ProcessingItem.from_dict", "ProcessingItem", "items"


@register
class NestedPostprocessingPostInit(_NestedPostInit):
    id = "C16.NestedQueryPostprocessingTransformation.__post_init__"
    target = "sigma.processing.postprocessing:NestedQueryPostprocessingTransformation.__post_init__"
    loader, itemcls, kw = "QueryPostprocessingItem.from_dict", "QueryPostprocessingItem", "postprocessing_items"


@register
class PipelineFromYaml(Contract):
    """from_yaml: capabilities are exactly the caller's arguments (defaults: nothing granted); when no base directories are given
    but the pipeline file's location is known, the base directory is the directory of its real path"""
    id = "C16.ProcessingPipeline.from_yaml"
    target = "sigma.processing.pipeline:ProcessingPipeline.from_yaml"
    props = ("C16",)
    cases = ("defaults", "explicit")
    assumed = ["yaml.safe_load is external (returns plain data)", "os.path.dirname / realpath uninterpreted"]

    def setup(self, E):
        E.externals["yaml.safe_load"] = lambda I, a, k: {"parsed": True}
        E.externals["os.path.realpath"] = lambda I, a, k: Sym(realpath(mk_str(I.force(a[0]))), "str")
        E.externals["os.path.dirname"] = lambda I, a, k: Sym(z3.Function("os.path.dirname", z3.StringSort(), z3.StringSort())(mk_str(I.force(a[0]))), "str")
        E.summaries["sigma.processing.pipeline:ProcessingPipeline.from_dict"] = lambda I, so, a, k: SObj("loaded", {"kwargs": dict(k), "args": a})

    def args(self, I, case):
        kw = {}
        sp = SOpt(z3.Bool(I.ctx.fresh_name("source_path_none")), I.fresh("source_path", "str"))
        vap = SOpt(z3.Bool(I.ctx.fresh_name("vap_none")), (I.fresh("base", "str"),))
        if case == "explicit":
            kw = {"allow_template_vars": I.fresh("atv", "bool"), "allow_external_sources": I.fresh("aes", "bool")}
        kw.update(vars_allowed_paths=vap, source_path=sp)
        return {"self": ClassRef(I.E.index.lookup("sigma.processing.pipeline:ProcessingPipeline")), "args": [I.fresh("text", "str")], "kwargs": kw, "kw": kw, "case": case}

    def post(self, I, inp, r):
        c = I.ctx
        k = r.fields["kwargs"]
        kw = inp["kw"]
        for x in ("allow_template_vars", "allow_external_sources"):
            c.require((k.get(x) is kw[x]) if x in kw else (k.get(x) is False), f"{x} passed to from_dict is the caller's argument (default False)")
        vap, sp = I.force(kw["vars_allowed_paths"]), I.force(kw["source_path"])
        got = k.get("vars_allowed_paths")
        if vap is not None:
            c.require(got is vap or got is kw["vars_allowed_paths"], "explicit base directories are passed on unchanged")
        elif sp is None:
            c.require(got is None or got is kw["vars_allowed_paths"], "no base directories without a source path")
        else:
            ok = isinstance(got, tuple) and len(got) == 1 and isinstance(got[0], Sym)
            c.require(ok, "base directory derived from the pipeline file's location")
            if ok:
                c.require(got[0].t == z3.Function("os.path.dirname", z3.StringSort(), z3.StringSort())(realpath(sp.t)), "base directory == dirname(realpath(source_path))")

    def raises(self, I, inp, exc):
        I.ctx.require(exc_is(I, exc, "SigmaError"), f"only Sigma errors (got {exc_name(exc)})", kind="SAFE")

    def frame_ok(self, I, inp, obj, name):
        return False


@register
class ResolverSourcePath(Contract):
    """ProcessingPipelineResolver: a pipeline read from a file - named directly or found in a pipeline directory - is loaded with ITS OWN
    file path as source location (the allowed directory for variables files is derived from it: the pipeline file's directory, never a
    parent of it), and with no opt-in argument"""
    id = "C16.ProcessingPipelineResolver.resolve[files]"
    target = "sigma.processing.resolver:ProcessingPipelineResolver.resolve"
    props = ("C16",)
    cases = ("file", "directory")
    assumed = ["open() / Path.is_dir() / Path.glob() are the file system (modelled: one pipeline file, in the directory case found two levels below the directory)",
               "ProcessingPipeline.from_yaml by its own contract (C16.ProcessingPipeline.from_yaml)"]

    def setup(self, E):
        calls = []
        E._c16_from_yaml = calls

        def s_from_yaml(I, so, a, k):
            calls.append((list(a), dict(k)))
            p = SObj(I.E.index.lookup("sigma.processing.pipeline:ProcessingPipeline"), {"priority": 0}, lazy=True)
            p.ghost["name"] = "loaded"
            return p
        E.summaries["sigma.processing.pipeline:ProcessingPipeline.from_yaml"] = s_from_yaml
        E.summaries["sigma.processing.pipeline:ProcessingPipeline.__radd__"] = lambda I, so, a, k: so

        class _H:
            def __init__(self, v):
                self.value = v

            def exit(self, I2, exc):
                pass

        class _File:
            def __init__(self, I, path):
                self.obj = SObj("File", {"read": NativeFn("read", lambda I2, a, k: I2.fresh("yaml_text", "str"))}, ghost={"path": path})

            def as_context(self, I2):
                return _H(self.obj)
        E.builtins = dict(E.builtins)
        E.builtins["open"] = NativeFn("open", lambda I, a, k: _File(I, a[0]))

        def x_path(I, a, k):
            s = I.force(a[0])
            if s == "pipelines":
                return SObj("Path", {"is_dir": NativeFn("is_dir", lambda I2, a2, k2: True), "glob": NativeFn("glob", lambda I2, a2, k2: [SObj("Path", {"__str__": NativeFn("__str__", lambda I3, a3, k3: "pipelines/sub/p.yml")})]),
                                     "__str__": NativeFn("__str__", lambda I2, a2, k2: "pipelines")})
            return SObj("Path", {"is_dir": NativeFn("is_dir", lambda I2, a2, k2: False), "__str__": NativeFn("__str__", lambda I2, a2, k2: s)})
        E.externals["pathlib.Path"] = x_path

    def args(self, I, case):
        del I.E._c16_from_yaml[:]
        me = SObj(I.E.index.lookup("sigma.processing.resolver:ProcessingPipelineResolver"), {"pipelines": {}}, lazy=True)
        return {"self": me, "args": [["pipelines"] if case == "directory" else ["conf/p.yml"]], "case": case}

    def post(self, I, inp, r):
        calls = I.E._c16_from_yaml
        want = "pipelines/sub/p.yml" if inp["case"] == "directory" else "conf/p.yml"
        ok = len(calls) == 1
        I.ctx.require(ok, "the pipeline file is loaded once")
        if ok:
            a, k = calls[0]
            sp = I.force(k.get("source_path", a[1] if len(a) > 1 else None))
            I.ctx.require(sp == want, f"source_path == the pipeline file's own path {want!r} (got {sp!r})")
            I.ctx.require(not any(n in k for n in ("allow_template_vars", "vars_allowed_paths", "allow_external_sources")) and len(a) <= 2, "no opt-in argument is passed by the resolver")

    def frame_ok(self, I, inp, obj, name):
        return False


@register
class VarsExecutionAllowed(Contract):
    """TemplateBase._vars_execution_allowed: true iff the caller's allow_template_vars or the documented environment variable (1 / true) -
    whatever directories are in force"""
    id = "C16.TemplateBase._vars_execution_allowed"
    target = "sigma.processing.templates:TemplateBase._vars_execution_allowed"
    props = ("C16",)
    cases = ("no-directories", "directories-in-force", "empty-directory-list")

    def setup(self, E):
        install_env(E)
        E.external_values["sigma.processing.templates.PYSIGMA_ALLOW_VARS_EXECUTION_ENV"] = "PYSIGMA_ALLOW_VARS_EXECUTION"

    def args(self, I, case):
        dirs = {"no-directories": None, "directories-in-force": (I.fresh("allowed_dir", "str"),), "empty-directory-list": ()}[case]
        a = I.fresh("allow_template_vars", "bool")
        me = SObj(I.E.index.lookup("sigma.processing.templates:TemplateBase"), {"allow_template_vars": a, "vars_allowed_paths": dirs}, lazy=True)
        return {"self": me, "args": [], "a": a}

    def post(self, I, inp, r):
        I.ctx.require(ops.mk_bool_term(ops.truth(I, r)) == z3.Or(inp["a"].t, env_allows("PYSIGMA_ALLOW_VARS_EXECUTION")), "allow_template_vars or PYSIGMA_ALLOW_VARS_EXECUTION in {1, true}")

    def frame_ok(self, I, inp, obj, name):
        return False
