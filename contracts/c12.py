"""C12 - each pipeline transformation equals its documented source-level rewrite: the walkers every transformation inherits and the
leaf transformations that are pure value / name code."""
from __future__ import annotations
import z3
from pyvc.api import *
from pyvc.values import *
from pyvc.interp import UNBOUND
from pyvc import ops

BASE = "sigma.processing.transformations.base"


def mk_item(I, name, field="f", values=2):
    idx = I.E.index
    vals = [I.fresh(f"{name}.v{i}", "opaque", "SigmaType") for i in range(values)]
    o = SObj(idx.lookup("sigma.rule.detection:SigmaDetectionItem"), {"field": field, "modifiers": [], "value": list(vals), "value_linking": "OR", "negated": False, "original_value": list(vals), "source": None,
                                                                    "auto_modifiers": True}, lazy=True)
    o.ghost["name"] = name
    return o


def mk_detection(I, items):
    return SObj(I.E.index.lookup("sigma.rule.detection:SigmaDetection"), {"detection_items": list(items)}, lazy=True)


@register
class DetectionItemWalker(Contract):
    """DetectionItemTransformation.apply_detection: position i is replaced iff the item matches the item's conditions and the transformation
    returns a replacement; nested detections are recursed into; replaced items are marked as not serialisable and as processed"""
    id = "C12.DetectionItemTransformation.apply_detection"
    target = f"{BASE}:DetectionItemTransformation.apply_detection"
    props = ("C12", "C13", "C06")
    assumed = ["apply_detection_item and match_detection_item are abstract (symbolic results per item)"]

    def setup(self, E):
        E.summaries["sigma.rule.detection:SigmaDetectionItem.disable_conversion_to_plain"] = lambda I, so, a, k: so.ghost.__setitem__("disabled", True)

    def args(self, I):
        idx = I.E.index
        a, b, c = mk_item(I, "a"), mk_item(I, "b"), mk_item(I, "c")
        nested = mk_detection(I, [c])
        det = mk_detection(I, [a, nested, b])
        flags = {}
        repl = {}
        for it in (a, b, c):
            flags[it.ghost["name"]] = (I.fresh(f"match_{it.ghost['name']}", "bool"), I.fresh(f"replaces_{it.ghost['name']}", "bool"))
            repl[it.ghost["name"]] = mk_item(I, "new_" + it.ghost["name"])
        applied = []
        pi = SObj("ProcessingItem", {"match_detection_item": NativeFn("match", lambda I2, args, k: flags[args[0].ghost["name"]][0])})
        T = SObj(idx.lookup(f"{BASE}:DetectionItemTransformation"), {"processing_item": pi}, lazy=True)
        I.E.summaries[f"{BASE}:DetectionItemTransformation.apply_detection_item"] = lambda I2, so, args, k: SOpt(z3.Not(flags[args[0].ghost["name"]][1].t), repl[args[0].ghost["name"]])
        I.E.summaries[f"{BASE}:Transformation.processing_item_applied"] = lambda I2, so, args, k: applied.append(args[0])
        return {"self": T, "args": [det], "det": det, "nested": nested, "items": {"a": a, "b": b, "c": c}, "flags": flags, "repl": repl, "applied": applied}

    def post(self, I, inp, r):
        c = I.ctx
        det, nested = inp["det"], inp["nested"]
        for name, (holder, pos) in {"a": (det, 0), "b": (det, 2), "c": (nested, 0)}.items():
            m, rp = inp["flags"][name]
            now = I.force(holder.fields["detection_items"][pos])
            replaced = z3.And(m.t, rp.t)
            c.require(z3.If(replaced, z3.BoolVal(now is inp["repl"][name]), z3.BoolVal(now is inp["items"][name])), f"item {name} is replaced iff it matches and the transformation returns a replacement")
            c.require(z3.Implies(replaced, z3.BoolVal(bool(inp["repl"][name].ghost.get("disabled")) and any(I.force(x) is inp["repl"][name] for x in inp["applied"]))), f"a replacement for {name} is marked unserialisable and as processed by this item")
            c.require(z3.Implies(z3.Not(replaced), z3.BoolVal(not any(I.force(x) is inp["repl"][name] for x in inp["applied"]))), f"nothing is recorded for {name} when it is not replaced")
        c.require(det.fields["detection_items"][1] is nested and len(det.fields["detection_items"]) == 3, "the structure of the detection is unchanged")

    def frame_ok(self, I, inp, obj, name):
        return False       # only list elements are replaced (no attribute of pre-existing objects is written)


@register
class ValueWalker(Contract):
    """ValueTransformation.apply_detection_item: the value list becomes the concatenation of the per-value results (None = keep the value,
    a list = its members, a single value = itself); the item is untouched if no value changed"""
    id = "C12.ValueTransformation.apply_detection_item"
    target = f"{BASE}:ValueTransformation.apply_detection_item"
    props = ("C12", "C17")
    cases = tuple(itertools_product := [(a, b) for a in ("keep", "one", "many", "drop") for b in ("keep", "one", "many", "drop")])

    def args(self, I, case):
        idx = I.E.index
        it = mk_item(I, "x")
        res = {}
        for how, v in zip(case, it.fields["value"]):
            res[id(v)] = {"keep": None, "one": I.fresh("r1", "opaque", "SigmaType"), "many": [I.fresh("m1", "opaque", "SigmaType"), I.fresh("m2", "opaque", "SigmaType")], "drop": []}[how]
        T = SObj(idx.lookup(f"{BASE}:ValueTransformation"), {"value_types": None}, lazy=True)
        I.E.summaries[f"{BASE}:ValueTransformation.apply_value"] = lambda I2, so, a, k: res[id(a[1])]
        I.E.opaque_isinstance["SigmaType"] = lambda I2, v, cinfo: cinfo.name == "SigmaType"
        I.E.external_isinstance["typing.Iterable"] = lambda I2, v: isinstance(v, (list, tuple))
        I.E.external_isinstance["collections.abc.Iterable"] = lambda I2, v: isinstance(v, (list, tuple))
        return {"self": T, "args": [it], "it": it, "res": res, "orig": list(it.fields["value"]), "case": case}

    def post(self, I, inp, r):
        want, modified = [], False
        for v in inp["orig"]:
            x = inp["res"][id(v)]
            if x is None:
                want.append(v)
            elif isinstance(x, list):
                want += x
                modified = True
            else:
                want.append(x)
                modified = True
        got = inp["it"].fields["value"]
        if modified:
            I.ctx.require(r is inp["it"] and len(got) == len(want) and all(a is b for a, b in zip(got, want)), "values == flat map of the per-value results, in order")
        else:
            I.ctx.require(r is None and got is not None and len(got) == len(inp["orig"]) and all(a is b for a, b in zip(got, inp["orig"])), "no value changed: no replacement, values untouched")

    def frame_ok(self, I, inp, obj, name):
        return obj is inp["it"] and name == "value"


def fmap(t):
    return z3.Function("field_mapping", z3.StringSort(), z3.StringSort())(t)


@register
class FieldMappingDetectionItem(Contract):
    """FieldMappingTransformationBase.apply_detection_item: one-to-one renames the field; one-to-many becomes an OR-linked detection of copies
    that differ only in the field (values, value linking, negation, modifiers kept); an unmapped / non-matching field is left alone"""
    id = "C12.FieldMappingTransformationBase.apply_detection_item"
    target = f"{BASE}:FieldMappingTransformationBase.apply_detection_item"
    props = ("C12", "C13", "C18", "C01")
    cases = ("one", "many", "unmapped", "no_match")
    assumed = ["apply_field_name / match_field_name abstract; values without field references; keyword-to-field wildcard case covered by the bounded stand-in"]

    def args(self, I, case):
        idx = I.E.index
        it = mk_item(I, "x")
        it.fields["value_linking"] = ClassRef(idx.lookup("sigma.conditions:ConditionAND"))
        it.fields["negated"] = True
        it.fields["applied_processing_items"] = {"earlier"}
        I.E.opaque_isinstance["SigmaType"] = lambda I2, v, cinfo: cinfo.name == "SigmaType"       # plain values: Sigma types, but no field references
        targets = {"one": "g", "many": ["g", "h"], "unmapped": None, "no_match": "g"}[case]
        pi = SObj("ProcessingItem", {"match_field_name": NativeFn("m", lambda I2, a, k: case != "no_match"), "match_field_in_value": NativeFn("m", lambda I2, a, k: False), "identifier": "id"})
        T = SObj(idx.lookup("sigma.processing.transformations.fields:FieldMappingTransformation"), {"processing_item": pi, "_pipeline": None}, lazy=True)
        I.E.summaries["sigma.processing.transformations.fields:FieldMappingTransformation.apply_field_name"] = lambda I2, so, a, k: targets
        I.E.summaries[f"{BASE}:Transformation.processing_item_applied"] = lambda I2, so, a, k: None
        return {"self": T, "args": [it], "it": it, "case": case, "vals": list(it.fields["value"])}

    def post(self, I, inp, r):
        c, it, case = I.ctx, inp["it"], inp["case"]
        if case in ("unmapped", "no_match"):
            c.require(r is None and it.fields["field"] == "f", "no replacement and the field keeps its name")
            return
        if case == "one":
            c.require(r is it and it.fields["field"] == "g", "one-to-one: the item's field is renamed")
            return
        ok = isinstance(r, SObj) and r.cls.name == "SigmaDetection" and isinstance(r.fields.get("detection_items"), list) and len(r.fields["detection_items"]) == 2
        c.require(ok, "one-to-many: a detection with one copy per target field")
        if ok:
            il = r.fields.get("item_linking")
            c.require(isinstance(il, ClassRef) and il.info.name == "ConditionOR", "the copies are OR-linked")
            for cp, fld in zip(r.fields["detection_items"], ["g", "h"]):
                same = isinstance(cp, SObj) and cp.fields.get("field") == fld and cp.fields.get("negated") is True and isinstance(cp.fields.get("value_linking"), ClassRef) and cp.fields["value_linking"].info.name == "ConditionAND" \
                    and len(cp.fields.get("value", [])) == 2 and all(a is b for a, b in zip(cp.fields["value"], inp["vals"]))
                c.require(same, f"the copy for {fld} differs from the original only in its field: values, value linking (all) and negation are kept")
                c.require(cp.fields.get("auto_modifiers") is False, f"the copy for {fld} is created with auto_modifiers off: its values are ALREADY modified (applying base64 / wide / windash ... a second time would change them)")
            sets = [ops.getattr_(I, cp, "applied_processing_items", None) for cp in r.fields["detection_items"]] + [it.fields["applied_processing_items"]]
            c.require(all(a is not b for i, a in enumerate(sets) for b in sets[i + 1:]), "the copies do not share their record of applied processing items with each other or with the original (C13: what a later item marks on one copy is not recorded for its siblings)", kind="FRAME")

    def frame_ok(self, I, inp, obj, name):
        return obj is inp["it"] and name in ("field", "value")


@register
class AddConditionApply(Contract):
    """AddConditionTransformation.apply: the rule gains the detection <name> built from the configured conditions - with log-source
    templates substituted for THIS rule when template is set - and the configuration itself is not modified (so a later rule is treated alike)"""
    id = "C12.AddConditionTransformation.apply"
    target = "sigma.processing.transformations.condition:AddConditionTransformation.apply"
    props = ("C12", "C15", "C08")
    cases = (True, False)
    assumed = ["string.Template(...).safe_substitute is abstract (a function of template text and the three log source values)", "SigmaDetection.from_definition abstract"]

    def setup(self, E):
        def x_template(I, a, k):
            txt = a[0]
            return SObj("Template", {"safe_substitute": NativeFn("safe_substitute", lambda I2, a2, k2: SObj("Substituted", {"text": txt, "kw": dict(k2)}))})
        E.externals["string.Template"] = x_template
        E.summaries["sigma.rule.detection:SigmaDetection.from_definition"] = lambda I, so, a, k: SObj("Detection", {"definition": a[0]})
        E.summaries[f"{BASE}:ConditionTransformation.apply"] = lambda I, so, a, k: None
        E.summaries[f"{BASE}:Transformation.processing_item_applied"] = lambda I, so, a, k: None

    def mk_rule(self, I, tag):
        ls = SObj("LogSource", {"category": I.fresh(f"{tag}.category", "str"), "product": I.fresh(f"{tag}.product", "str"), "service": I.fresh(f"{tag}.service", "str")})
        return SObj(I.E.index.lookup("sigma.rule.rule:SigmaRule"), {"logsource": ls, "detection": SObj("Detections", {"detections": {}})}, lazy=True)

    def args(self, I, case):
        conds = {"a": "$category", "b": ["x-$product", 5], "c": 7}
        T = SObj(I.E.index.lookup("sigma.processing.transformations.condition:AddConditionTransformation"), {"conditions": conds, "name": "_cond_x", "template": case, "negated": False}, lazy=True)
        rule = self.mk_rule(I, "r")
        return {"self": T, "args": [rule], "rule": rule, "conds": conds, "snapshot": {"a": "$category", "b": ["x-$product", 5], "c": 7}, "case": case}

    def before(self, I, inp):
        # history: the same transformation object processed another rule (other log source) before
        inp["earlier"] = self.mk_rule(I, "r0")
        I.call_function(I.E.index.lookup(self.target), inp["self"], [inp["earlier"]], {})

    def post(self, I, inp, r):
        c, rule = I.ctx, inp["rule"]
        d_new, d_old = rule.fields["detection"].fields["detections"].get("_cond_x"), inp["earlier"].fields["detection"].fields["detections"].get("_cond_x")
        c.require(d_new is not None and d_new is not d_old, "every rule gets its OWN detection object (later items rewrite detection items in place: a shared object would carry one rule's rewriting into the next)", kind="FRAME")
        c.require(inp["self"].fields["conditions"] == inp["snapshot"], "the configured conditions are unchanged (templates are not overwritten by one rule's values)")
        det = rule.fields["detection"].fields["detections"].get("_cond_x")
        ok = isinstance(det, SObj) and isinstance(det.fields.get("definition"), dict)
        c.require(ok, "the rule gains the detection named after the transformation")
        if ok:
            d = det.fields["definition"]
            if not inp["case"]:
                c.require(d == inp["snapshot"], "without template the conditions are used as configured")
            else:
                ls = rule.fields["logsource"].fields

                def sub_ok(x, text):
                    return isinstance(x, SObj) and x.cls == "Substituted" and x.fields["text"] == text and x.fields["kw"].get("category") is ls["category"] and x.fields["kw"].get("product") is ls["product"] and x.fields["kw"].get("service") is ls["service"]
                c.require(sub_ok(d.get("a"), "$category") and isinstance(d.get("b"), list) and sub_ok(d["b"][0], "x-$product") and d["b"][1] == 5 and d.get("c") == 7,
                          "with template every string value is substituted with THIS rule's log source; other values unchanged")

    def frame_ok(self, I, inp, obj, name):
        return obj is not inp["self"]


ADD_COND_SHAPES = ("a", "a or b", "(a or b)", "(a and b) or (c and d)", "(a) and (b)", "(a or b) and c", "not a", "a and b or c", "((a or b))", " (a) or (b) ", "(a) or b and (c)", "not (a) or (b)",
                   "1 of a*", "(1 of a*) or (all of them)", "(a or b) and not (c or d)", "((a) or (b)) and ((c) or (d))", "(a)", "a or (b)", "(a) or b", "")


@register
class AddConditionApplyCondition(Contract):
    """AddConditionTransformation.apply_condition: the rewritten condition text MEANS <name> AND (the previous condition) - NOT <name> AND
    (...) when negated; for an empty condition just (NOT) <name>. Decided by reading the produced text with the reference reader of the
    condition grammar (C02 stand-in) on all truth assignments: any spelling with that meaning is accepted"""
    id = "C12.AddConditionTransformation.apply_condition"
    target = "sigma.processing.transformations.condition:AddConditionTransformation.apply_condition"
    props = ("C12", "C02", "C13")
    cases = tuple((neg, shape) for neg in (False, True) for shape in ADD_COND_SHAPES)
    assumed = ["concrete condition texts (the listed shapes); the meaning of a text is the one of the reference reader in contracts/c02_bounded.py"]

    def args(self, I, case):
        neg, shape = case
        T = SObj(I.E.index.lookup("sigma.processing.transformations.condition:AddConditionTransformation"), {"name": "_cond_x", "negated": neg}, lazy=True)
        cond = SObj(I.E.index.lookup("sigma.conditions:SigmaCondition"), {"condition": shape}, lazy=True)
        return {"self": T, "args": [cond], "cond": cond, "case": case}

    def post(self, I, inp, r):
        import itertools
        from contracts.c02_bounded import Ref, tokenize, ev_ref
        neg, shape = inp["case"]
        got = I.force(inp["cond"].fields["condition"])
        c = I.ctx
        c.require(isinstance(got, str), "the condition stays a text")
        if not isinstance(got, str):
            return
        names = ["a", "b", "c", "d", "a2", "_cond_x"]
        want_text = ("not " if neg else "") + "_cond_x" + (f" and ({shape})" if shape.strip() else "")
        try:
            rd = Ref(tokenize(got), names)
            tg = rd.parse_or()
            assert rd.peek() is None
        except Exception:
            c.require(False, f"the rewritten condition {got!r} is a well-formed condition")
            return
        tw = Ref(tokenize(want_text), names).parse_or()
        bad = None
        for bits in itertools.product((False, True), repeat=len(names)):
            env = dict(zip(names, bits))
            if ev_ref(tg, env) != ev_ref(tw, env):
                bad = env
                break
        c.require(bad is None, f"the rewritten condition {got!r} means {want_text!r} (differs for {bad})")

    def frame_ok(self, I, inp, obj, name):
        return obj is inp["cond"] and name == "condition"

    def candidates(self):
        return ({"negated": neg, "shape": shape} for neg in (False, True) for shape in ADD_COND_SHAPES if shape.strip())

    def replay(self, values):
        if "shape" not in values:
            return None
        import itertools
        from sigma.rule import SigmaRule
        from sigma.processing.transformations import AddConditionTransformation
        from contracts.c02_bounded import Ref, tokenize, ev_ref
        names = ["a", "b", "c", "d", "a2", "_cond_x"]
        rule = SigmaRule.from_dict({"title": "t", "logsource": {"category": "c"}, "detection": {**{n: {n: 1} for n in names[:5]}, "condition": values["shape"]}})
        AddConditionTransformation({"x": 1}, name="_cond_x", negated=values["negated"]).apply(rule)
        got = rule.detection.parsed_condition[0].condition
        want_text = ("not " if values["negated"] else "") + f"_cond_x and ({values['shape']})"
        try:
            tg = Ref(tokenize(got), names).parse_or()
        except Exception as e:
            return f"add_condition on the condition {values['shape']!r} writes {got!r}, which is not well-formed"
        tw = Ref(tokenize(want_text), names).parse_or()
        for bits in itertools.product((False, True), repeat=len(names)):
            env = dict(zip(names, bits))
            if ev_ref(tg, env) != ev_ref(tw, env):
                return f"add_condition{' (negated)' if values['negated'] else ''} on the condition {values['shape']!r} writes {got!r}, which does not mean {want_text!r}: they differ for {env}"
        return None


FLD = "sigma.processing.transformations.fields"


@register
class PrefixMappingFieldName(Contract):
    """field_name_prefix_mapping: the first mapping entry whose source is a prefix of the field decides; the result is the destination
    prefix followed by the REST of the field name (only the leading occurrence is rewritten); no entry matches: not mapped"""
    id = "C12.FieldPrefixMappingTransformation.apply_field_name"
    target = f"{FLD}:FieldPrefixMappingTransformation.apply_field_name"
    props = ("C12",)
    cases = ("str", "list", "second", "none", "keyword")
    assumed = ["mapping of two entries (unrolled), first with a string destination, second with a two-element list"]

    def args(self, I, case):
        f = {n: I.fresh(n, "str") for n in ("src0", "dest0", "src1", "d1a", "d1b", "field")}
        c = I.ctx
        p0, p1 = z3.PrefixOf(f["src0"].t, f["field"].t), z3.PrefixOf(f["src1"].t, f["field"].t)
        c.assume(f["src0"].t != f["src1"].t)
        if case == "str":
            c.assume(p0)
        elif case in ("list", "second"):
            c.assume(z3.And(z3.Not(p0), p1))
        elif case == "none":
            c.assume(z3.And(z3.Not(p0), z3.Not(p1)))
        mapping = {f["src0"]: f["dest0"], f["src1"]: [f["d1a"], f["d1b"]]}
        me = SObj(I.E.index.lookup(f"{FLD}:FieldPrefixMappingTransformation"), {"mapping": mapping}, lazy=True)
        return {"self": me, "args": [None if case == "keyword" else f["field"]], "f": f, "case": case}

    def post(self, I, inp, r):
        c, f, case = I.ctx, inp["f"], inp["case"]
        fld = f["field"].t

        def rest(src):
            return z3.SubString(fld, z3.Length(src), z3.Length(fld) - z3.Length(src))
        if case in ("none", "keyword"):
            c.require(r is None, "no prefix matches (or keyword item): not mapped")
        elif case == "str":
            c.require(isinstance(r, (Sym, str)) and True, "a string is returned")
            if isinstance(r, (Sym, str)):
                c.require(mk_str(r) == z3.Concat(f["dest0"].t, rest(f["src0"].t)), "destination prefix + the field name after the source prefix")
        else:
            r = I.force(r) if not isinstance(r, list) else r
            ok = isinstance(r, list) and len(r) == 2 and all(isinstance(x, (Sym, str)) for x in r)
            c.require(ok, "one name per destination prefix")
            if ok:
                for x, d in zip(r, ("d1a", "d1b")):
                    c.require(mk_str(x) == z3.Concat(f[d].t, rest(f["src1"].t)), "destination prefix + the field name after the source prefix, in order")

    def model_terms(self, inp):
        return {n: v.t for n, v in inp["f"].items()}

    def candidates(self):
        for field in ("win.data.win.image", "aa", "ab.ab", "x", "p.p.p"):
            for s0, s1 in (("win.", "a"), ("a", "ab"), ("p.", "x"), ("zz", "p")):
                yield {"src0": s0, "dest0": "D0_", "src1": s1, "d1a": "Da_", "d1b": "Db_", "field": field}

    def replay(self, values):
        from sigma.processing.transformations.fields import FieldPrefixMappingTransformation
        v = {n: values.get(n) or "" for n in ("src0", "dest0", "src1", "d1a", "d1b", "field")}
        if v["src0"] == v["src1"]:
            return None
        t = FieldPrefixMappingTransformation({v["src0"]: v["dest0"], v["src1"]: [v["d1a"], v["d1b"]]})
        got = t.apply_field_name(v["field"])
        fld = v["field"]
        want = v["dest0"] + fld[len(v["src0"]):] if fld.startswith(v["src0"]) else [d + fld[len(v["src1"]):] for d in (v["d1a"], v["d1b"])] if fld.startswith(v["src1"]) else None
        return None if got == want else f"prefix mapping {{{v['src0']!r}: {v['dest0']!r}, {v['src1']!r}: [{v['d1a']!r}, {v['d1b']!r}]}} maps field {fld!r} to {got!r}; only the leading prefix is to be rewritten: {want!r}"

    def frame_ok(self, I, inp, obj, name):
        return False


class _Affix(Contract):
    """field_name_prefix / field_name_suffix: prefix + field respectively field + suffix; keyword items are not mapped"""
    props = ("C12",)
    cases = (False, True)
    clsname = ""

    def args(self, I, case):
        f = {"affix": I.fresh("affix", "str"), "field": I.fresh("field", "str")}
        me = SObj(I.E.index.lookup(f"{FLD}:{self.clsname}"), {"prefix" if "Prefix" in self.clsname else "suffix": f["affix"]}, lazy=True)
        return {"self": me, "args": [None if case else f["field"]], "f": f, "case": case}

    def post(self, I, inp, r):
        f = inp["f"]
        if inp["case"]:
            I.ctx.require(r is None, "keyword items are not mapped")
        else:
            I.ctx.require(isinstance(r, (Sym, str)), "a string is returned")
            if isinstance(r, (Sym, str)):
                want = z3.Concat(f["affix"].t, f["field"].t) if "Prefix" in self.clsname else z3.Concat(f["field"].t, f["affix"].t)
                I.ctx.require(mk_str(r) == want, "prefix + field / field + suffix")

    def frame_ok(self, I, inp, obj, name):
        return False


@register
class PrefixFieldName(_Affix):
    id = "C12.AddFieldnamePrefixTransformation.apply_field_name"
    target = f"{FLD}:AddFieldnamePrefixTransformation.apply_field_name"
    clsname = "AddFieldnamePrefixTransformation"


@register
class SuffixFieldName(_Affix):
    id = "C12.AddFieldnameSuffixTransformation.apply_field_name"
    target = f"{FLD}:AddFieldnameSuffixTransformation.apply_field_name"
    clsname = "AddFieldnameSuffixTransformation"


@register
class RegexReplacePlaceholders(Contract):
    """SigmaRegularExpression.replace_placeholders: one regular expression per replacement of the pattern, each with the FLAGS of the
    original; a result that still contains placeholders keeps its parts, a complete one is re-parsed from its text"""
    id = "C12.SigmaRegularExpression.replace_placeholders"
    target = "sigma.types:SigmaRegularExpression.replace_placeholders"
    props = ("C12", "C17")
    assumed = ["SigmaString.replace_placeholders by its contract (C17); two results (one complete, one with placeholders left), unrolled"]

    def setup(self, E):
        E.summaries["sigma.types:SigmaRegularExpression"] = lambda I, so, a, k: SObj("RX", {"a": list(a), "k": dict(k)})

    def args(self, I):
        texts = [I.fresh("text0", "str"), I.fresh("text1", "str")]
        res = [SObj("SStr", {"contains_placeholder": NativeFn("contains_placeholder", lambda I2, a, k, v=v: v), "__str__": NativeFn("__str__", lambda I2, a, k, t=t: t)}, ghost={"text": t})
               for v, t in zip((False, True), texts)]
        cb = SObj("Callback", {})
        got = {}

        def rp(I2, a, k):
            got["cb"] = a[0] if a else k.get("callback")
            return list(res)
        flags = I.fresh("flags", "opaque", "FlagSet")
        me = SObj(I.E.index.lookup("sigma.types:SigmaRegularExpression"), {"regexp": SObj("SStr", {"replace_placeholders": NativeFn("replace_placeholders", rp)}), "flags": flags}, lazy=True)
        return {"self": me, "args": [cb], "res": res, "flags": flags, "cb": cb, "got": got, "texts": texts}

    def post(self, I, inp, r):
        c = I.ctx
        r = I.force(r) if not isinstance(r, list) else r
        ok = isinstance(r, list) and len(r) == 2 and all(isinstance(x, SObj) and x.cls == "RX" for x in r)
        c.require(ok, "one regular expression per replacement result, in order")
        c.require(inp["got"].get("cb") is inp["cb"], "the callback is passed on to the pattern's replace_placeholders")
        if ok:
            for i, x in enumerate(r):
                a, k = x.fields["a"], x.fields["k"]
                fl = a[1] if len(a) > 1 else k.get("flags")
                c.require(fl is inp["flags"], "the flags of the original regular expression are kept")
                pat = a[0] if a else k.get("regexp")
                if i == 1:
                    c.require(pat is inp["res"][1], "a result with placeholders left keeps its parts")
                else:
                    c.require(pat is inp["res"][0] or pat is inp["texts"][0], "a complete result is taken as its text str(result) (or as it is)")

    def frame_ok(self, I, inp, obj, name):
        return False


@register
class AddWildcardsToKeyword(Contract):
    """_add_wildcards_to_value (a keyword mapped to a field becomes a 'contains' match): a multi-character wildcard is put in front unless
    the value's FIRST PART is that wildcard, and behind unless its LAST PART is - decided on the parts of the value, so that an escaped
    literal asterisk at a border does not count as a wildcard"""
    id = "C12.FieldMappingTransformationBase._add_wildcards_to_value"
    target = f"{BASE}:FieldMappingTransformationBase._add_wildcards_to_value"
    props = ("C12",)
    assumed = ["the value is abstract: startswith / endswith of the multi-character wildcard are symbolic facts about its parts (C05.SigmaString.startswith / endswith); + builds a new value"]

    def args(self, I):
        idx = I.E.index
        facts = {"starts": I.fresh("first_part_is_wildcard", "bool"), "ends": I.fresh("last_part_is_wildcard", "bool"), "empty": I.fresh("empty", "bool")}
        I.ctx.assume(z3.Implies(facts["empty"].t, z3.And(z3.Not(facts["starts"].t), z3.Not(facts["ends"].t))))

        def mk(front, back):
            o = SObj(idx.lookup("sigma.types:SigmaString"), {}, lazy=True)
            o.ghost.update(front=front, back=back)

            def chk(I2, a, which):
                arg = I2.force(a[0])
                if not (isinstance(arg, EnumVal) and arg.name == "WILDCARD_MULTI"):
                    raise OutsideSubset("startswith / endswith asked about something else than the wildcard part")
                if which == "starts":
                    return True if front else facts["starts"]
                return True if back else (Sym(z3.Or(facts["ends"].t, facts["empty"].t), "bool") if front else facts["ends"])

            def add(I2, a, k, side):
                arg = I2.force(a[0])
                if not (isinstance(arg, EnumVal) and arg.name == "WILDCARD_MULTI"):
                    raise OutsideSubset("something else than the wildcard part is added")
                return mk(front or side == "front", back or side == "back")
            o.fields["startswith"] = NativeFn("startswith", lambda I2, a, k: chk(I2, a, "starts"))
            o.fields["endswith"] = NativeFn("endswith", lambda I2, a, k: chk(I2, a, "ends"))
            o.fields["__add__"] = NativeFn("__add__", lambda I2, a, k: add(I2, a, k, "back"))
            o.fields["__radd__"] = NativeFn("__radd__", lambda I2, a, k: add(I2, a, k, "front"))
            return o
        val = mk(False, False)
        me = SObj(idx.lookup(f"{BASE}:FieldMappingTransformationBase"), {}, lazy=True)
        return {"self": me, "args": [val], "facts": facts}

    def post(self, I, inp, r):
        f = inp["facts"]
        ok = isinstance(r, SObj) and "front" in r.ghost
        I.ctx.require(ok, "the value (possibly extended) is returned")
        if ok:
            I.ctx.require(z3.BoolVal(bool(r.ghost["front"])) == z3.Not(f["starts"].t), "a wildcard is put in front iff the first part is not the wildcard")
            I.ctx.require(z3.BoolVal(bool(r.ghost["back"])) == z3.And(z3.Not(f["ends"].t), z3.Not(f["empty"].t)), "a wildcard is put behind iff the last part is not the wildcard (an empty value becomes one wildcard)")

    def frame_ok(self, I, inp, obj, name):
        return False


@register
class AddConditionBounded(Bounded):
    """add_condition through the public API: explicit names that occur inside other words of the conditions, several conditions per rule,
    two add_condition items (also with the SAME item identifier, as after joining two pipelines) - the conditions must mean
    NAME2 and (NAME1 and (old)), read by the reference reader of the condition grammar"""
    id = "C12.bounded.add_condition"
    props = ("C12", "C02", "C13")

    def run(self, tier, seed):
        import itertools, copy
        import re as re_
        from sigma.rule import SigmaRule
        from sigma.processing.pipeline import ProcessingPipeline
        from contracts.c02_bounded import Ref, tokenize, ev_ref
        ev = 0
        fails, seen = [], {}
        dets = ["sel_index_main", "flt", "a", "index2", "x_index"]
        conds = ["sel_index_main and not flt", "1 of sel_index_* or not flt", "a or index2", "(a) or (x_index)", "not 1 of *_index*", "a"]
        names = ["index", "_index", "idx", "a", "_cond"]
        for name, cset, idents in itertools.product(names, (conds[:1], conds[1:3], conds[3:], conds), (("i1", "i2"), ("same", "same"), (None, None))):
            if name in dets:
                continue
            ev += 1
            doc = {"title": "t", "logsource": {"category": "c"}, "detection": {**{d: {d: 1} for d in dets}, "condition": list(cset)}}
            items = [{"type": "add_condition", "conditions": {"k1": 1}, "name": name}, {"type": "add_condition", "conditions": {"k2": 2}, "name": name + "_second"}]
            for it, ident in zip(items, idents):
                if ident:
                    it["id"] = ident
            try:
                rule = SigmaRule.from_dict(copy.deepcopy(doc))
                (ProcessingPipeline.from_dict({"transformations": items[:1]}) + ProcessingPipeline.from_dict({"transformations": items[1:]})).apply(rule)
                got = [c.condition for c in rule.detection.parsed_condition]
                ok_dets = name in rule.detection.detections and name + "_second" in rule.detection.detections
            except Exception as e:
                got, ok_dets = f"{type(e).__name__}: {e}", False
            bad = None
            if not ok_dets or not isinstance(got, list) or len(got) != len(cset):
                bad = f"detections added: {ok_dets}, conditions {got}"
            else:
                allnames = dets + [name, name + "_second"]
                for g, old in zip(got, cset):
                    want = f"{name}_second and ({name} and ({old}))"
                    try:
                        tg, tw = Ref(tokenize(g), allnames).parse_or(), Ref(tokenize(want), allnames).parse_or()
                    except Exception:
                        bad = f"condition {g!r} is not well-formed"
                        break
                    for bits in itertools.product((False, True), repeat=len(allnames)):
                        env = dict(zip(allnames, bits))
                        if ev_ref(tg, env) != ev_ref(tw, env):
                            bad = f"condition {g!r} does not mean {want!r}"
                            break
                    if bad:
                        break
            if bad:
                seen["add_condition"] = seen.get("add_condition", 0) + 1
                if seen["add_condition"] <= 2:
                    fails.append({"text": f"two add_condition items named {name!r} / {name + '_second'!r} (item identifiers {idents}) on a rule with the conditions {list(cset)}: {bad}", "input": [name, list(cset), list(idents)]})
        # two items WITHOUT a name: each draws its own random name - both detections are there, both conditions hold
        for cset in (conds[:1], conds[1:3]):
            ev += 1
            try:
                rule = SigmaRule.from_dict({"title": "t", "logsource": {"category": "c"}, "detection": {**{d: {d: 1} for d in dets}, "condition": list(cset)}})
                ProcessingPipeline.from_dict({"transformations": [{"type": "add_condition", "conditions": {"k1": 1}}, {"type": "add_condition", "conditions": {"k2": 2}}]}).apply(rule)
                added = [n for n in rule.detection.detections if n not in dets]
                ok = len(added) == 2 and all(all(re_.search(r"(?<![\w])" + n + r"(?![\w])", c.condition) for n in added) for c in rule.detection.parsed_condition)
                what = f"added detections {added}, conditions {[c.condition for c in rule.detection.parsed_condition]}"
            except Exception as e:
                ok, what = False, f"{type(e).__name__}: {e}"
            if not ok:
                fails.append({"text": f"two add_condition items without a name on the conditions {list(cset)}: {what} - expected two distinct added detections, both named by every condition", "input": ["unnamed", list(cset)]})
        return {"evaluations": ev, "distinct_nontrivial": ev, "failures": fails, "failure_counts": seen, "bound": f"{len(names)} names x 4 condition sets x 3 identifier settings", "rule": "every combination is non-trivial", "samples": [], "exhaustive": True}
