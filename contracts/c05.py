"""C05 - string values keep their characters and wildcards in every rendering (sigma/types.py, conversion/base.py)."""
from __future__ import annotations
import z3
from pyvc.api import *
from pyvc.values import *
from pyvc import ops
from pyvc.builtins_ import charmap_fn, charmap_unfold, charmap_nil
from . import model as M

ESC_WILD = {"*": "\\*", "?": "\\?"}


def part_text(regex, p):
    """text of one part in to_plain(regex): str parts verbatim (regex) or with wildcards escaped; specials as * ? ; %name%"""
    P = M.PartSort()
    S = z3.StringVal
    return z3.If(P.is_PStr(p), z3.If(regex, P.str(p), charmap_fn(ESC_WILD)(P.str(p))),
                 z3.If(p == P.PWM, S("*"), z3.If(p == P.PWS, S("?"), z3.Concat(S("%"), P.name(p), S("%")))))


def plain(regex, xs):
    return z3.Function("parts.plain", z3.BoolSort(), M.parts_sort(), z3.StringSort())(regex, xs)


def plain_nil(regex):
    return plain(regex, z3.Empty(M.parts_sort())) == z3.StringVal("")


def plain_cons(regex, x, tail):
    return plain(regex, z3.Concat(z3.Unit(x), tail)) == z3.Concat(part_text(regex, x), plain(regex, tail))


def bterm(v):
    return v.t if isinstance(v, Sym) else z3.BoolVal(bool(v))


class ToPlainLoop(LoopSpec):
    modifies = {"rs": "str"}

    def inv(self, I, env, done, rest, total):
        rx = bterm(env["regex"])
        return [("rs ++ plain(rest) == plain(parts)", z3.Concat(mk_str(env["rs"]), plain(rx, rest)) == plain(rx, total))]

    def hints(self, I, env, phase, x, done, rest2, total):
        rx = bterm(env["regex"])
        if phase == "pre":
            return [plain_cons(rx, x, rest2)]
        if phase == "exit":
            return [plain_nil(rx)]
        return []


def install_to_plain_summary(E):
    def s_to_plain(I, self_obj, args, kwargs):
        rx = args[0] if args else kwargs.get("regex", False)
        return Sym(plain(bterm(rx), ops.seq_term(I, self_obj.fields["s"], M.PART)), "str")
    E.summaries["sigma.types:SigmaString.to_plain"] = s_to_plain


@register
class ToPlain(Contract):
    id = "C05.SigmaString.to_plain"
    target = "sigma.types:SigmaString.to_plain"
    props = ("C05", "C04")
    assumed = ["str.replace chain '*'->'\\*', '?'->'\\?' is the per-character map charmap (cross-checked natively)"]

    def setup(self, E):
        M.install_part_adt(E)
        E.loop_invariants[(self.target, 0)] = ToPlainLoop()

    def args(self, I):
        val = M.mk_sigma_string(I, "self")
        rx = I.fresh("regex", "bool")
        return {"self": val, "args": [rx], "regex": rx}

    def post(self, I, inp, r):
        I.ctx.require(ops.kind_of(r) == "str", "returns a str")
        I.ctx.require(mk_str(r) == plain(inp["regex"].t, inp["self"].fields["s"].t), "result == concat(part_text(regex, p) for p in parts)")

    def frame_ok(self, I, inp, obj, name):
        return False
