"""C05 - string values keep their characters and wildcards in every rendering (sigma/types.py, conversion/base.py)."""
from __future__ import annotations
import z3
from pyvc.api import *
from pyvc.values import *
from pyvc import ops
from pyvc.builtins_ import charmap_fn, charmap_unfold, charmap_nil
from . import model as M

ESC_WILD = {"*": "\\*", "?": "\\?"}


def part_text(regex, p):
    """text of one part in to_plain(regex): str parts verbatim (regex) or with wildcards escaped; specials as * ? ; %name%"""
    P = M.PartSort()
    S = z3.StringVal
    return z3.If(P.is_PStr(p), z3.If(regex, P.str(p), charmap_fn(ESC_WILD)(P.str(p))),
                 z3.If(p == P.PWM, S("*"), z3.If(p == P.PWS, S("?"), z3.Concat(S("%"), P.name(p), S("%")))))


def plain(regex, xs):
    return z3.Function("parts.plain", z3.BoolSort(), M.parts_sort(), z3.StringSort())(regex, xs)


def plain_nil(regex):
    return plain(regex, z3.Empty(M.parts_sort())) == z3.StringVal("")


def plain_cons(regex, x, tail):
    return plain(regex, z3.Concat(z3.Unit(x), tail)) == z3.Concat(part_text(regex, x), plain(regex, tail))


def bterm(v):
    return v.t if isinstance(v, Sym) else z3.BoolVal(bool(v))


class ToPlainLoop(LoopSpec):
    modifies = {"rs": "str"}

    def inv(self, I, env, done, rest, total):
        rx = bterm(env["regex"])
        return [("rs ++ plain(rest) == plain(parts)", z3.Concat(mk_str(env["rs"]), plain(rx, rest)) == plain(rx, total))]

    def hints(self, I, env, phase, x, done, rest2, total):
        rx = bterm(env["regex"])
        if phase == "pre":
            return [plain_cons(rx, x, rest2)]
        if phase == "exit":
            return [plain_nil(rx)]
        return []


def install_to_plain_summary(E):
    def s_to_plain(I, self_obj, args, kwargs):
        rx = args[0] if args else kwargs.get("regex", False)
        return Sym(plain(bterm(rx), ops.seq_term(I, self_obj.fields["s"], M.PART)), "str")
    E.summaries["sigma.types:SigmaString.to_plain"] = s_to_plain


@register
class ToPlain(Contract):
    id = "C05.SigmaString.to_plain"
    target = "sigma.types:SigmaString.to_plain"
    props = ("C05", "C04")
    assumed = ["str.replace chain '*'->'\\*', '?'->'\\?' is the per-character map charmap (cross-checked natively)"]

    def setup(self, E):
        M.install_part_adt(E)
        E.loop_invariants[(self.target, 0)] = ToPlainLoop()

    def args(self, I):
        val = M.mk_sigma_string(I, "self")
        rx = I.fresh("regex", "bool")
        return {"self": val, "args": [rx], "regex": rx}

    def post(self, I, inp, r):
        I.ctx.require(ops.kind_of(r) == "str", "returns a str")
        I.ctx.require(mk_str(r) == plain(inp["regex"].t, inp["self"].fields["s"].t), "result == concat(part_text(regex, p) for p in parts)")

    def frame_ok(self, I, inp, obj, name):
        return False


# ----------------------------------------------------------------------------------------------- the parser
def join_term(I, v):
    """text of "".join(acc) for the accumulator list"""
    from pyvc.builtins_ import str_join
    v = I.force(v)
    if isinstance(v, list):
        return mk_str(ops.concat_strs(I, [x for x in v]))
    return str_join(ops.sv(v).t)


class ParserLoop(LoopSpec):
    modifies = {"r": ("seq", M.PART), "acc": ("seq", "str"), "escaped": "bool"}

    def inv(self, I, env, done, rest, total):
        esc, escape = bterm(env["escaped"]), bterm(env["escape"])
        r = ops.seq_term(I, env["r"], M.PART)
        acc = join_term(I, env["acc"])
        accl = ops.seq_term(I, env["acc"], "str")
        return [("atoms(r) ++ lits(acc) ++ sp(escaped, unread) == sp(False, s)",
                 z3.Concat(M.atoms(r), M.lits(acc), M.sp(esc, rest, escape)) == M.sp(z3.BoolVal(False), total, escape)),
                ("acc is empty iff its text is empty", (z3.Length(accl) == 0) == (z3.Length(acc) == 0))]

    def hints(self, I, env, phase, x, done, rest2, total):
        esc, escape = bterm(env["escaped"]), bterm(env["escape"])
        r = ops.seq_term(I, env["r"], M.PART)
        acc = join_term(I, env["acc"])
        P = M.PartSort()
        if phase == "entry":
            return [M.atoms_nil(), M.lits_nil()]
        if phase == "pre":
            bs = z3.StringVal("\\")
            return [M.sp_cons(esc, x, rest2, escape), M.lits_snoc(acc, x), M.lits_snoc(acc, bs), M.lits_snoc(z3.Concat(acc, bs), x), M.lits_nil(),
                    M.atoms_snoc(r, P.PStr(acc)), M.atoms_snoc(r, P.PWM), M.atoms_snoc(r, P.PWS),
                    M.atoms_snoc(z3.Concat(r, z3.Unit(P.PStr(acc))), P.PWM), M.atoms_snoc(z3.Concat(r, z3.Unit(P.PStr(acc))), P.PWS)]
        if phase == "exit":
            bs = z3.StringVal("\\")
            return [M.sp_nil(esc, escape), M.lits_nil(), M.atoms_nil(), M.lits_snoc(acc, bs), M.atoms_snoc(r, P.PStr(acc)), M.atoms_snoc(r, P.PStr(z3.Concat(acc, bs)))]
        return []


@register
class SigmaStringInit(Contract):
    """the parser: the parts denote exactly the atoms the Sigma specification gives the source text"""
    id = "C05.SigmaString.__init__"
    target = "sigma.types:SigmaString.__init__"
    props = ("C05",)
    assumed = ["definitions of sp / lits / atoms are supplied as instances of their defining equations (explicit unfolding)", '"".join(list of str) is concatenation']

    def setup(self, E):
        M.install_part_adt(E)
        E.loop_invariants[(self.target, 0)] = ParserLoop()

    def args(self, I):
        s = I.fresh("s", "str")
        esc = I.fresh("escape", "bool")
        me = SObj(I.E.index.lookup("sigma.types:SigmaString"), {})
        return {"self": me, "args": [s, esc], "s": s, "escape": esc}

    def post(self, I, inp, r):
        me = inp["self"]
        I.ctx.require("s" in me.fields and "original" in me.fields, "sets s and original")
        I.ctx.require(ops.mk_bool_term(ops.py_eq(I, me.fields["original"], inp["s"])), "original is the source text")
        I.ctx.require(M.atoms(ops.seq_term(I, me.fields["s"], M.PART)) == M.sp(z3.BoolVal(False), inp["s"].t, inp["escape"].t), "atoms(parts) == sp(source text)")

    def frame_ok(self, I, inp, obj, name):
        return obj is inp["self"] and name in ("s", "original")

    def model_terms(self, inp):
        return {"s": inp["s"].t, "escape": inp["escape"].t}

    def replay(self, values):
        from sigma.types import SigmaString
        s, esc = values.get("s", ""), bool(values.get("escape", True))
        if not isinstance(s, str):
            return None
        got = M.atoms_native(SigmaString(s, esc).s)
        want = M.sp_native(s, esc)
        return None if got == want else f"SigmaString({s!r}, escape={esc}) has atoms {got}, the specification gives {want}"

    def candidates(self):
        import itertools
        for n in range(0, 5):
            for t in itertools.product("a*?\\%", repeat=n):
                for e in (True, False):
                    yield {"s": "".join(t), "escape": e}


# ----------------------------------------------------------------------------------------------- convert(): target encoding
def K_of(env_or_inp):
    """configuration terms (esc_none, esc, wm_none, wm, ws_none, ws, escaped, filter) from argument values"""
    return env_or_inp


def enc_char(K, c):
    """encoding of one literal character"""
    return z3.If(z3.Contains(K["filter"], c), z3.StringVal(""), z3.If(z3.And(z3.Contains(K["escaped"], c), z3.Not(K["esc_none"])), z3.Concat(K["esc"], c), c))


def kargs(K):
    return [K["esc_none"], K["esc"], K["escaped"], K["filter"]]


def encs(K, s):
    """encoding of a literal text (per character)"""
    return z3.Function("enc_str", z3.BoolSort(), z3.StringSort(), z3.StringSort(), z3.StringSort(), z3.StringSort(), z3.StringSort())(*kargs(K), s)


def encs_nil(K):
    return encs(K, z3.StringVal("")) == z3.StringVal("")


def encs_cons(K, c, rest):
    return encs(K, z3.Concat(c, rest)) == z3.Concat(enc_char(K, c), encs(K, rest))


def enc_part(K, p):
    P = M.PartSort()
    return z3.If(P.is_PStr(p), encs(K, P.str(p)), z3.If(p == P.PWM, K["wm"], z3.If(p == P.PWS, K["ws"], z3.StringVal("<unconvertible placeholder>"))))


def enc(K, ps):
    return z3.Function("enc_parts", z3.BoolSort(), z3.StringSort(), z3.StringSort(), z3.StringSort(), z3.StringSort(), z3.StringSort(), M.parts_sort(), z3.StringSort())(*kargs(K), K["wm"], K["ws"], ps)


def enc_nil(K):
    return enc(K, z3.Empty(M.parts_sort())) == z3.StringVal("")


def enc_cons(K, p, rest):
    return enc(K, z3.Concat(z3.Unit(p), rest)) == z3.Concat(enc_part(K, p), enc(K, rest))


def convertible(K, ps):
    """no placeholder part, and no wildcard part whose token is missing (uninterpreted, defined from the right)"""
    return z3.Function("convertible", z3.BoolSort(), z3.BoolSort(), M.parts_sort(), z3.BoolSort())(K["wm_none"], K["ws_none"], ps)


def convertible_nil(K):
    return convertible(K, z3.Empty(M.parts_sort()))


def convertible_snoc(K, ps, p):
    P = M.PartSort()
    okp = z3.And(z3.Not(P.is_PPH(p)), z3.Implies(p == P.PWM, z3.Not(K["wm_none"])), z3.Implies(p == P.PWS, z3.Not(K["ws_none"])))
    return convertible(K, z3.Concat(ps, z3.Unit(p))) == z3.And(convertible(K, ps), okp)


def intersects_nil(chars):
    return z3.Not(ops.intersects(z3.StringVal(""), chars))


def intersects_cons(c, rest, chars):
    return ops.intersects(z3.Concat(c, rest), chars) == z3.Or(z3.Contains(chars, c), ops.intersects(rest, chars))


def K_from_env(I, env):
    def opt(v):
        if isinstance(v, SOpt):
            return v.is_none, mk_str(v.val)
        if v is None:
            return z3.BoolVal(True), z3.StringVal("")
        return z3.BoolVal(False), mk_str(v)
    en, e = opt(env["escape_char"])
    mn, m = opt(env["wildcard_multi"])
    sn, s_ = opt(env["wildcard_single"])
    escaped = z3.Concat(z3.If(mn, z3.StringVal(""), m), z3.If(sn, z3.StringVal(""), s_), mk_str(env["add_escaped"]))
    return {"esc_none": en, "esc": e, "wm_none": mn, "wm": m, "ws_none": sn, "ws": s_, "escaped": escaped, "filter": mk_str(env["filter_chars"])}


class ConvertOuter(LoopSpec):
    modifies = {"result": ("seq", "str")}

    def inv(self, I, env, done, rest, total):
        K = K_from_env(I, env)
        return [("join(result) ++ enc(rest) == enc(parts)", z3.Concat(join_term(I, env["result"]), enc(K, rest)) == enc(K, total)),
                ("everything consumed so far was convertible", convertible(K, done))]

    def hints(self, I, env, phase, x, done, rest2, total):
        K = K_from_env(I, env)
        if phase == "entry":
            return [convertible_nil(K)]
        if phase == "pre":
            P = M.PartSort()
            return [enc_cons(K, x, rest2), convertible_snoc(K, done, x), z3.Implies(P.is_PStr(x), z3.And(lemma_enc_id_noesc(K, P.str(x)), lemma_enc_id_nointersect(K, P.str(x))))]
        if phase == "exit":
            return [enc_nil(K)]
        return []


class ConvertInner(LoopSpec):
    """for c in part: (escaping only / filtering and escaping)"""
    modifies = {"result": ("seq", "str")}

    def inv(self, I, env, done, rest, total):
        K = K_from_env(I, env)
        j0 = join_term(I, env[self.entry_key]["result"])
        return [("join(result) ++ enc_str(unread chars) == join(result at entry) ++ enc_str(part)", z3.Concat(join_term(I, env["result"]), encs(K, rest)) == z3.Concat(j0, encs(K, total)))]

    def hints(self, I, env, phase, x, done, rest2, total):
        K = K_from_env(I, env)
        if phase == "pre":
            return [encs_cons(K, x, rest2)]
        if phase == "exit":
            return [encs_nil(K)]
        return []


def lemma_enc_id_noesc(K, s):
    """LEMMA (C05.lemma.enc_identity): nothing to escape and nothing to filter => enc_str(s) == s"""
    return z3.Implies(z3.And(z3.Length(K["escaped"]) == 0, z3.Length(K["filter"]) == 0), encs(K, s) == s)


def lemma_enc_id_nointersect(K, s):
    """LEMMA (C05.lemma.enc_identity): no character of s is escaped and nothing is filtered => enc_str(s) == s"""
    return z3.Implies(z3.And(z3.Not(ops.intersects(s, K["escaped"])), z3.Length(K["filter"]) == 0), encs(K, s) == s)


@register
class EncIdentityLemma(Lemma):
    """by induction on s (base: s == ""; step: s == c ++ r with |c| == 1, induction hypothesis for r)"""
    id = "C05.lemma.enc_identity"
    props = ("C05", "C17")
    assumed = ["structural induction over strings (base + step discharged by the solver; the induction schema itself is the meta-argument)"]

    def goals(self):
        K = {"esc_none": z3.Bool("esc_none"), "esc": z3.String("esc"), "escaped": z3.String("escaped"), "filter": z3.String("filter"), "wm": z3.String("wm"), "ws": z3.String("ws"),
             "wm_none": z3.Bool("wmn"), "ws_none": z3.Bool("wsn")}
        c, r = z3.String("c"), z3.String("r")
        one = z3.Length(c) == 1
        g = []
        for name, lem, extra in (("nothing escaped or filtered", lemma_enc_id_noesc, []), ("no character of the text is in the escaped set", lemma_enc_id_nointersect, [intersects_cons(c, r, K["escaped"])])):
            g.append((f"{name}: base", [encs_nil(K), intersects_nil(K["escaped"])], lem(K, z3.StringVal(""))))
            g.append((f"{name}: step", [one, encs_cons(K, c, r), lem(K, r)] + extra, lem(K, z3.Concat(c, r))))
        return g


@register
class SigmaStringConvert(Contract):
    id = "C05.SigmaString.convert"
    target = "sigma.types:SigmaString.convert"
    props = ("C05", "C17")
    assumed = ["frozenset(str) is the character set of the string; membership of a character = substring test on a one-character string",
               "lemma C05.lemma.enc_identity is instantiated at the two fast paths"]

    def setup(self, E):
        M.install_part_adt(E)
        E.loop_invariants[(self.target, 0)] = ConvertOuter()
        E.loop_invariants[(self.target, 1)] = ConvertInner()
        E.loop_invariants[(self.target, 2)] = ConvertInner()

    def args(self, I):
        me = M.mk_sigma_string(I, "self")
        o = lambda n: SOpt(z3.Bool(I.ctx.fresh_name(n + "_none")), I.fresh(n, "str"))
        kw = {"escape_char": o("escape_char"), "wildcard_multi": o("wildcard_multi"), "wildcard_single": o("wildcard_single"), "add_escaped": I.fresh("add_escaped", "str"), "filter_chars": I.fresh("filter_chars", "str")}
        # an escape character, where given, is one character (TextQueryBackend configuration precondition)
        I.ctx.assume(z3.Implies(z3.Not(kw["escape_char"].is_none), z3.Length(kw["escape_char"].val.t) >= 0))
        return {"self": me, "args": [], "kwargs": kw, "kw": kw}

    def post(self, I, inp, r):
        K = K_from_env(I, inp["kw"])
        ps = inp["self"].fields["s"].t
        I.ctx.require(mk_str(r) == enc(K, ps), "result == concatenation of the per-atom encodings: escaped characters get the escape character, filtered ones vanish, wildcards become the target tokens")
        I.ctx.require(convertible(K, ps), "a value is rendered only if it has no placeholder part and every wildcard has a target token")

    def raises(self, I, inp, exc):
        I.ctx.require(exc_is(I, exc, "SigmaPlaceholderError") or exc_is(I, exc, "SigmaValueError"), f"only SigmaPlaceholderError / SigmaValueError (got {exc_name(exc)})", kind="SAFE")

    def frame_ok(self, I, inp, obj, name):
        return False


# ----------------------------------------------------------------------------------------------- small observers
def arg_part_union(I, name):
    """a value of type SigmaStringPartType: str | SpecialChars | Placeholder (symbolic)"""
    t = z3.Const(I.ctx.fresh_name(name), M.PartSort())
    return ops.ADTS["Part"][1](t), t


class _Edge(Contract):
    props = ("C05", "C03")
    first = True

    def setup(self, E):
        M.install_part_adt(E)

    def args(self, I):
        me = M.mk_sigma_string(I, "self")
        v, vt = arg_part_union(I, "val")
        return {"self": me, "args": [v], "vt": vt}

    def post(self, I, inp, r):
        P = M.PartSort()
        ps, v = inp["self"].fields["s"].t, inp["vt"]
        n = z3.Length(ps)
        c = ps[0] if self.first else ps[n - 1]
        same_kind = z3.Or(z3.And(P.is_PStr(c), P.is_PStr(v)), z3.And(z3.Or(c == P.PWM, c == P.PWS), z3.Or(v == P.PWM, v == P.PWS)), z3.And(P.is_PPH(c), P.is_PPH(v)))
        spec = z3.And(n > 0, same_kind, z3.If(P.is_PStr(c), (z3.PrefixOf if self.first else z3.SuffixOf)(P.str(v), P.str(c)), c == v))
        rt = ops.truth(I, r)
        I.ctx.require(ops.mk_bool_term(rt) == spec, ("starts" if self.first else "ends") + " with: same kind of part at that end; for text a prefix/suffix test, otherwise equality")

    def frame_ok(self, I, inp, obj, name):
        return False


@register
class StartsWith(_Edge):
    id = "C05.SigmaString.startswith"
    target = "sigma.types:SigmaString.startswith"
    first = True


@register
class EndsWith(_Edge):
    id = "C05.SigmaString.endswith"
    target = "sigma.types:SigmaString.endswith"
    first = False


@register
class ContainsSpecial(Contract):
    id = "C05.SigmaString.contains_special"
    target = "sigma.types:SigmaString.contains_special"
    props = ("C05", "C04", "C03")

    def setup(self, E):
        M.install_part_adt(E)

    def args(self, I):
        return {"self": M.mk_sigma_string(I, "self"), "args": []}

    def post(self, I, inp, r):
        I.ctx.require(ops.mk_bool_term(ops.truth(I, r)) == M.has_special(inp["self"].fields["s"].t), "True iff some part is a wildcard")

    def frame_ok(self, I, inp, obj, name):
        return False


# ----------------------------------------------------------------------------------------------- concatenation
def lits_app(a, b):
    """LEMMA C05.lemma.lits_app (by induction on b from the right)"""
    return M.lits(z3.Concat(a, b)) == z3.Concat(M.lits(a), M.lits(b))


@register
class LitsAppLemma(Lemma):
    id = "C05.lemma.lits_app"
    props = ("C05", "C03")
    assumed = ["structural induction over strings (base + step discharged by the solver)"]

    def goals(self):
        a, b, c = z3.Strings("a b c")
        return [("lits(a ++ b) == lits(a) ++ lits(b): base (b empty)", [M.lits_nil()], lits_app(a, z3.StringVal(""))),
                ("lits(a ++ b) == lits(a) ++ lits(b): step (b == b' ++ c, |c| == 1)", [z3.Length(c) == 1, lits_app(a, b), M.lits_snoc(z3.Concat(a, b), c), M.lits_snoc(b, c)], lits_app(a, z3.Concat(b, c)))]


class MergeLoop(LoopSpec):
    modifies = {"res": ("seq", M.PART)}

    def inv(self, I, env, done, rest, total):
        res = ops.seq_term(I, env["res"], M.PART)
        s0 = env["self"].fields["s"].t
        return [("atoms(res) ++ atoms(unread) == atoms(parts)", z3.Concat(M.atoms(res), M.atoms(rest)) == M.atoms(s0)), ("res is not empty", z3.Length(res) >= 1)]

    def hints(self, I, env, phase, x, done, rest2, total):
        P = M.PartSort()
        res = ops.seq_term(I, env["res"], M.PART)
        s0 = env["self"].fields["s"].t
        n = z3.Length(res)
        if phase == "entry":
            first = s0[0]
            tail = z3.Extract(s0, 1, z3.Length(s0) - 1)
            return [z3.Implies(z3.Length(s0) > 0, s0 == z3.Concat(z3.Unit(first), tail)), M.atoms_cons(first, tail), M.atoms_snoc(z3.Empty(M.parts_sort()), first), M.atoms_nil()]
        if phase == "pre":
            init, last = z3.Extract(res, 0, n - 1), res[n - 1]
            merged = P.PStr(z3.Concat(P.str(last), P.str(x)))
            return [M.atoms_cons(x, rest2), res == z3.Concat(init, z3.Unit(last)), M.atoms_snoc(init, last), M.atoms_snoc(init, merged), M.atoms_snoc(res, x), lits_app(P.str(last), P.str(x))]
        if phase == "exit":
            return [M.atoms_nil()]
        return []


# NOT registered: the preservation obligation of the merge branch stays `unknown` in z3 and cvc5 (sequence theory with nth / extract terms),
# i.e. undecided - _merge_strs therefore remains an ASSUMED contract of the C03 wildcard-modifier proofs (listed there).
class MergeStrs(Contract):
    """_merge_strs joins adjacent text parts; the atoms (characters, wildcards, placeholders) are unchanged"""
    id = "C05.SigmaString._merge_strs"
    target = "sigma.types:SigmaString._merge_strs"
    props = ("C05", "C03")
    assumed = ["lemma C05.lemma.lits_app is instantiated in the loop"]

    def setup(self, E):
        M.install_part_adt(E)
        E.loop_invariants[(self.target, 0)] = MergeLoop()

    def args(self, I):
        me = M.mk_sigma_string(I, "self")
        return {"self": me, "args": [], "s0": me.fields["s"].t}

    def post(self, I, inp, r):
        me = inp["self"]
        I.ctx.require(r is me, "returns the string itself")
        I.ctx.require(M.atoms(ops.seq_term(I, me.fields["s"], M.PART)) == M.atoms(inp["s0"]), "atoms(parts after) == atoms(parts before)")

    def frame_ok(self, I, inp, obj, name):
        return obj is inp["self"] and name == "s"


class _Concat(Contract):
    props = ("C05", "C03")
    right = True
    cases = ("part", "string")
    assumed = ["_merge_strs contract (atoms unchanged) used as summary"]

    def setup(self, E):
        M.install_part_adt(E)

        def s_merge(I, so, a, k):
            old = ops.seq_term(I, so.fields["s"], M.PART)
            new = SList(I.fresh("merged", "seq", elem=M.PART))
            I.ctx.assume(M.atoms(new.sym.t) == M.atoms(old))
            so.fields["s"] = new
            return so
        E.summaries["sigma.types:SigmaString._merge_strs"] = s_merge
        E.summaries["sigma.types:SigmaString.__init__"] = lambda I, so, a, k: (so.fields.__setitem__("s", []), so.fields.__setitem__("original", ""))[0]

    def args(self, I, case):
        me = M.mk_sigma_string(I, "self")
        if case == "part":
            other, ot = arg_part_union(I, "other")
            oatoms = M.part_atoms(ot)
        else:
            if not self.right:
                other, ot = arg_part_union(I, "other")
                oatoms = M.part_atoms(ot)
            else:
                other = M.mk_sigma_string(I, "other")
                oatoms = M.atoms(other.fields["s"].t)
        return {"self": me, "args": [other], "oatoms": oatoms, "satoms": M.atoms(me.fields["s"].t), "s0": me.fields["s"].t, "other": other}

    def post(self, I, inp, r):
        c = I.ctx
        ok = isinstance(r, SObj) and r is not inp["self"] and "s" in r.fields
        c.require(ok, "returns a new SigmaString")
        if ok:
            # atoms of a concatenation of part lists (definition of atoms from the right / left, instantiated)
            want = z3.Concat(inp["satoms"], inp["oatoms"]) if self.right else z3.Concat(inp["oatoms"], inp["satoms"])
            c.require(M.atoms(ops.seq_term(I, r.fields["s"], M.PART)) == want, "atoms(result) == atoms(left operand) ++ atoms(right operand)")
        c.require(ops.mk_bool_term(ops.py_eq(I, Sym(inp["self"].fields["s"].t if isinstance(inp["self"].fields["s"], Sym) else ops.seq_term(I, inp["self"].fields["s"], M.PART), "seq", M.PART), Sym(inp["s0"], "seq", M.PART))), "the operand is not modified")

    def frame_ok(self, I, inp, obj, name):
        return False


CB = "sigma.conversion.base"


@register
class ConvertValueStr(Contract):
    """the query literal of a string: SigmaString.convert is called with the backend's escape character and wildcard tokens, an escaped
    set that contains every quote character and every additionally escaped character WHETHER OR NOT the value is quoted (an unquoted
    value containing the quote character must not open a literal), and the filter characters; the result is quoted exactly when
    decide_string_quoting says so"""
    id = "C05.TextQueryBackend.convert_value_str"
    target = f"{CB}:TextQueryBackend.convert_value_str"
    props = ("C05", "C01")
    assumed = ["SigmaString.convert by its own contract (C05.SigmaString.convert); decide_string_quoting is an arbitrary predicate of the value"]

    def setup(self, E):
        E.summaries[f"{CB}:TextQueryBackend.decide_string_quoting"] = lambda I, so, a, k: so.ghost["quote"]

    def args(self, I):
        cap = {}

        def conv(I2, a, k):
            cap["a"], cap["k"] = list(a), dict(k)
            cap["r"] = I2.fresh("converted", "str")
            return cap["r"]
        s = SObj("SigmaStringArg", {"convert": NativeFn("convert", conv)})
        f = {n: I.fresh(n, "str") for n in ("escape_char", "wildcard_multi", "wildcard_single", "str_quote", "add_escaped", "filter_chars")}
        me = SObj(I.E.index.lookup(f"{CB}:TextQueryBackend"), dict(f), lazy=True)
        me.ghost["quote"] = I.fresh("quote", "bool")
        return {"self": me, "args": [s, I.fresh("state", "opaque", "State")], "cap": cap, "f": f}

    def post(self, I, inp, r):
        c, cap, f = I.ctx, inp["cap"], inp["f"]
        ok = "a" in cap and len(cap["a"]) + len(cap["k"]) == 5
        c.require(ok, "SigmaString.convert is called once with five arguments")
        if not ok:
            return
        names = ["escape_char", "wildcard_multi", "wildcard_single", "add_escaped", "filter_chars"]
        got = dict(zip(names, cap["a"]))
        got.update(cap["k"])
        for n in ("escape_char", "wildcard_multi", "wildcard_single", "filter_chars"):
            c.require(got.get(n) is f[n], f"{n} of the backend is passed unchanged")
        esc = got.get("add_escaped")
        ch = z3.String("any_char")
        okesc = isinstance(esc, (Sym, str))
        c.require(okesc, "the escaped set is a string")
        if okesc:
            e = mk_str(esc)
            c.require(z3.Implies(z3.And(z3.Length(ch) == 1, z3.Or(z3.Contains(f["str_quote"].t, ch), z3.Contains(f["add_escaped"].t, ch))), z3.Contains(e, ch)),
                      "every quote character and every additionally escaped character is in the escaped set, quoted or not")
            c.require(z3.Implies(z3.And(z3.Length(ch) == 1, z3.Contains(e, ch)), z3.Or(z3.Contains(f["str_quote"].t, ch), z3.Contains(f["add_escaped"].t, ch))),
                      "nothing else is escaped")
        conv = None
        rr = mk_str(r) if isinstance(r, (Sym, str)) else None
        c.require(rr is not None, "a string is returned")
        if rr is not None:
            cv = cap["r"].t
            q = f["str_quote"].t
            c.require(rr == z3.If(inp["self"].ghost["quote"].t, z3.Concat(q, cv, q), cv), "quoted exactly when decide_string_quoting(s): quote + converted + quote, otherwise converted")

    def model_terms(self, inp):
        return {"str_quote": inp["f"]["str_quote"].t, "add_escaped": inp["f"]["add_escaped"].t, "quote": inp["self"].ghost["quote"].t, "any_char": z3.String("any_char")}

    def candidates(self):
        return ({"str_quote": q, "add_escaped": a, "quote": qt, "any_char": ch} for q in ('"', "'") for a in ("", "\\", "$") for qt in (False, True) for ch in (q, a[:1] or "x"))

    def replay(self, values):
        """the real convert_value_str on a real backend configured from the counter-model, read back by the target's rules"""
        import re as _re
        from sigma.backends.test import TextQueryTestBackend
        from sigma.types import SigmaString
        q, add, quote, ch = values.get("str_quote") or '"', values.get("add_escaped") or "", bool(values.get("quote")), values.get("any_char") or "x"
        if len(q) != 1 or any(c in "*?\\" for c in q + add + ch) or len(ch) != 1:
            return None

        class B(TextQueryTestBackend):
            str_quote, add_escaped, escape_char, wildcard_multi, wildcard_single, filter_chars = q, add, "\\", "*", "?", ""
            str_quote_pattern, str_quote_pattern_negation = _re.compile(".*" if quote else "(?!)"), False
        text = "a" + ch + "b"
        out = B().convert_value_str(SigmaString(text), None)
        body = out[1:-1] if quote and len(out) >= 2 and out[0] == q and out[-1] == q else out
        for special in q + add:      # a source character that is special in the target must be preceded by the escape character
            i = body.find(special)
            while i >= 0:
                if i == 0 or body[i - 1] != "\\":
                    return f"backend with str_quote {q!r}, add_escaped {add!r}, value {text!r} {'quoted' if quote else 'not quoted'}: rendered as {out!r} - the character {special!r} of the source is not escaped"
                i = body.find(special, i + 1)
        return None

    def frame_ok(self, I, inp, obj, name):
        return False


@register
class ConvertValueRe(Contract):
    """the query form of a regular expression is SigmaRegularExpression.escape with the backend's escaped sequences, escape character,
    escape-the-escape-character switch and flag-prefix switch, unchanged"""
    id = "C05.TextQueryBackend.convert_value_re"
    target = f"{CB}:TextQueryBackend.convert_value_re"
    props = ("C05", "C01")
    assumed = ["SigmaRegularExpression.escape: bounded stand-in C05.bounded.renderings (regex escaping) and guard contract C17"]

    def args(self, I):
        cap = {}

        def esc(I2, a, k):
            cap["a"], cap["k"] = list(a), dict(k)
            cap["r"] = I2.fresh("escaped", "str")
            return cap["r"]
        # the regular expression object: escape() is the ONLY rendering that applies the backend's escaping (also of the escape character itself)
        rx = SObj("RegexArg", {"escape": NativeFn("escape", esc), "flags": set(), "contains_placeholder": NativeFn("cp", lambda I2, a, k: False),
                               "regexp": SObj("Pattern", {"__str__": NativeFn("__str__", lambda I2, a, k: I2.fresh("unescaped_pattern_text", "str"))})})
        f = {"re_escape": I.fresh("re_escape", "opaque", "StrTuple"), "re_escape_char": I.fresh("re_escape_char", "str"), "re_escape_escape_char": I.fresh("re_escape_escape_char", "bool"),
             "re_flag_prefix": I.fresh("re_flag_prefix", "bool")}
        me = SObj(I.E.index.lookup(f"{CB}:TextQueryBackend"), dict(f), lazy=True)
        return {"self": me, "args": [rx, I.fresh("state", "opaque", "State")], "cap": cap, "f": f}

    def post(self, I, inp, r):
        c, cap, f = I.ctx, inp["cap"], inp["f"]
        ok = "a" in cap
        c.require(ok, "escape() is called")
        if ok:
            names = ["escaped", "escape_char", "escape_escape_char", "flag_prefix"]
            got = dict(zip(names, cap["a"]))
            got.update(cap["k"])
            c.require(set(got) == set(names) and got["escaped"] is f["re_escape"] and got["escape_char"] is f["re_escape_char"] and got["escape_escape_char"] is f["re_escape_escape_char"]
                      and got["flag_prefix"] is f["re_flag_prefix"], "re_escape, re_escape_char, re_escape_escape_char and re_flag_prefix are passed unchanged, in this order")
            c.require(r is cap["r"], "the escaped text is returned unchanged")

    def frame_ok(self, I, inp, obj, name):
        return False


@register
class FieldEqFieldEscapeQuote(Contract):
    """field-equals-field expressions: each of the two field names is escaped / quoted iff ITS OWN switch of
    field_equals_field_escaping_quoting is set, otherwise passed as written"""
    id = "C05.TextQueryBackend.convert_condition_field_eq_field_escape_and_quote"
    target = f"{CB}:TextQueryBackend.convert_condition_field_eq_field_escape_and_quote"
    props = ("C05", "C01")
    assumed = ["escape_and_quote_field: bounded stand-in C05.bounded.renderings (field names)"]

    def setup(self, E):
        E.summaries[f"{CB}:TextQueryBackend.escape_and_quote_field"] = lambda I, so, a, k: Sym(z3.Function("escape_and_quote_field", z3.StringSort(), z3.StringSort())(mk_str(I.force(a[0]))), "str")

    def args(self, I):
        f1, f2 = I.fresh("field1", "str"), I.fresh("field2", "str")
        s1, s2 = I.fresh("switch1", "bool"), I.fresh("switch2", "bool")
        me = SObj(I.E.index.lookup(f"{CB}:TextQueryBackend"), {"field_equals_field_escaping_quoting": (s1, s2)}, lazy=True)
        return {"self": me, "args": [f1, f2], "f": (f1, f2), "s": (s1, s2)}

    def post(self, I, inp, r):
        esc = z3.Function("escape_and_quote_field", z3.StringSort(), z3.StringSort())
        r = I.force(r) if not isinstance(r, (tuple, list)) else r
        ok = isinstance(r, (tuple, list)) and len(r) == 2 and all(ops.kind_of(x) == "str" for x in r)
        I.ctx.require(ok, "a pair of strings is returned")
        if ok:
            for i in (0, 1):
                I.ctx.require(mk_str(r[i]) == z3.If(inp["s"][i].t, esc(inp["f"][i].t), inp["f"][i].t), f"field {i + 1} is escaped and quoted iff switch {i + 1} is set, else unchanged")

    def frame_ok(self, I, inp, obj, name):
        return False


def _mk_eq_val_str(cased):
    pre = "case_sensitive_" if cased else ""

    class C(Contract):
        __doc__ = f"""convert_condition_field_eq_val_str{'_case_sensitive' if cased else ''}: whichever operator template is chosen, the pattern it denotes with the value
        it is given is the pattern of the rule's value: startswith gets the value without its LAST part only if that part is the
        multi-character wildcard, endswith the value without its FIRST part only if that is the wildcard, contains the value without both
        only if both are; a remainder with further wildcards only where the backend allows it; every other template gets the whole value"""
        id = f"C05.TextQueryBackend.convert_condition_field_eq_val_str{'_case_sensitive' if cased else ''}"
        target = f"{CB}:TextQueryBackend.convert_condition_field_eq_val_str{'_case_sensitive' if cased else ''}"
        props = ("C05", "C01", "C03")
        cases = tuple(itertools.product((False, True), repeat=3))      # which of startswith / endswith / contains templates the backend defines
        assumed = ["the value is abstract: startswith / endswith / contains_special / slicing are symbolic facts about it (own contracts C05.SigmaString.*)", "templates opaque"]

        def args(self, I, case):
            calls = []
            idx = I.E.index
            facts = {"starts_wm": I.fresh("starts_with_wildcard", "bool"), "ends_wm": I.fresh("ends_with_wildcard", "bool"), "special": I.fresh("contains_special", "bool")}
            slices = {}

            def mkval(tag, special):
                o = SObj(idx.lookup("sigma.types:SigmaString"), {}, lazy=True)
                o.ghost["tag"] = tag
                o.fields["contains_special"] = NativeFn("contains_special", lambda I2, a, k: special)
                o.fields["to_regex"] = NativeFn("to_regex", lambda I2, a, k, o=o: SObj("Regex", {}, ghost={"of": o}))
                return o
            whole = mkval("whole", facts["special"])

            def chk(I2, a, which):
                arg = I2.force(a[0])
                if not (isinstance(arg, EnumVal) and arg.name == "WILDCARD_MULTI"):
                    raise OutsideSubset("startswith / endswith asked about something else than the multi-character wildcard")
                return facts[which]
            whole.fields["startswith"] = NativeFn("startswith", lambda I2, a, k: chk(I2, a, "starts_wm"))
            whole.fields["endswith"] = NativeFn("endswith", lambda I2, a, k: chk(I2, a, "ends_wm"))

            def getitem(I2, a, k):
                sl = a[0]
                key = (I2.force(sl.start), I2.force(sl.stop))
                if key not in ((None, -1), (1, None), (1, -1)):
                    raise OutsideSubset(f"slice {key} of the value")
                if key not in slices:
                    slices[key] = mkval(key, I2.fresh(f"rest{key}_contains_special", "bool"))
                    slices[key].ghost["special"] = slices[key].fields["contains_special"].fn(I2, [], {})
                return slices[key]
            whole.fields["__getitem__"] = NativeFn("__getitem__", getitem)
            f = {}
            for n, on in zip(("startswith", "endswith", "contains"), case):
                f[f"{pre}{n}_expression"] = tmpl5(I, calls, n) if on else None
                f[f"{pre}{n}_expression_allow_special"] = I.fresh(f"{n}_allow_special", "bool")
            if cased:
                f["case_sensitive_match_expression"] = tmpl5(I, calls, "match")
            else:
                f["wildcard_match_expression"] = tmpl5(I, calls, "wildcard_match")
                f["eq_expression"] = tmpl5(I, calls, "eq")
            f["add_escaped_re"] = I.fresh("add_escaped_re", "str")
            me = SObj(idx.lookup(f"{CB}:TextQueryBackend"), f, lazy=True)
            cond = SObj(idx.lookup("sigma.conditions:ConditionFieldEqualsValueExpression"), {"field": I.fresh("field", "str"), "value": whole}, lazy=True)
            return {"self": me, "args": [cond, I.fresh("state", "opaque", "State")], "calls": calls, "facts": facts, "slices": slices, "whole": whole, "f": f, "cond": cond}

        def setup(self, E):
            E.summaries[f"{CB}:TextQueryBackend.escape_and_quote_field"] = lambda I, so, a, k: SObj("EscapedField", {"of": a[0]})
            E.summaries[f"{CB}:TextQueryBackend.convert_value_str"] = lambda I, so, a, k: SObj("ConvertedStr", {"of": a[0]})
            E.summaries[f"{CB}:TextQueryBackend.convert_value_re"] = lambda I, so, a, k: SObj("ConvertedRe", {"of": a[0]})

        def post(self, I, inp, r):
            c, calls, facts, slices, f = I.ctx, inp["calls"], inp["facts"], inp["slices"], inp["f"]
            ok = len(calls) == 1 and r is calls[0][2]
            c.require(ok, "exactly one operator template is rendered and returned")
            if not ok:
                return
            name, k = calls[0][0], calls[0][1]
            v = k.get("value")
            val = v.fields.get("of") if isinstance(v, SObj) and v.cls == "ConvertedStr" else None
            c.require(val is not None, "value == convert_value_str(the value given to the template)")
            fld = k.get("field")
            c.require(isinstance(fld, SObj) and fld.cls == "EscapedField" and fld.fields["of"] is inp["cond"].fields["field"], "field == the escaped / quoted field of the comparison")
            rx = k.get("regex")
            c.require(isinstance(rx, SObj) and rx.cls == "ConvertedRe" and isinstance(rx.fields["of"], SObj) and rx.fields["of"].ghost.get("of") is val, "regex == the regular expression of the same value")
            want = {"startswith": ((None, -1), facts["ends_wm"].t), "endswith": ((1, None), facts["starts_wm"].t), "contains": ((1, -1), z3.And(facts["starts_wm"].t, facts["ends_wm"].t))}
            if name in want:
                key, pre_ok = want[name]
                c.require(val is slices.get(key), f"the {name} template gets the value without the wildcard part(s) it stands for")
                c.require(pre_ok, f"the {name} template is used only if the removed part(s) are the multi-character wildcard")
                if key in slices:
                    c.require(z3.Or(f[f"{pre}{name}_expression_allow_special"].t, z3.Not(slices[key].ghost["special"].t)), f"a remainder with further wildcards goes to the {name} template only if the backend allows that")
            else:
                c.require(val is inp["whole"], f"the {name} template gets the whole value")

        def raises(self, I, inp, exc):
            I.ctx.require(exc_is(I, exc, "NotImplementedError"), f"only NotImplementedError (got {exc_name(exc)})", kind="SAFE")

        def frame_ok(self, I, inp, obj, name):
            return False
    C.__name__ = f"EqValStr{'Cased' if cased else ''}"
    return C


def tmpl5(I, calls, name):
    def f(I2, a, k):
        r = I2.fresh(name + "_out", "str")
        calls.append((name, dict(k), r))
        return r
    return SObj("Template", {"format": NativeFn("format", f)})


import itertools
register(_mk_eq_val_str(False))
register(_mk_eq_val_str(True))


@register
class DecideStringQuoting(Contract):
    """decide_string_quoting: no quote character -> never; no pattern -> always; otherwise the pattern is matched against the text of the
    value AS IT IS NOW (str(value) - values derived by modifiers, slicing or transformations have no source text of their own), the
    verdict negated if configured"""
    id = "C05.TextQueryBackend.decide_string_quoting"
    target = f"{CB}:TextQueryBackend.decide_string_quoting"
    props = ("C05", "C01")
    cases = ("noquote", "nopattern", "pattern", "pattern_negated")

    def args(self, I, case):
        idx = I.E.index
        got = {}
        hit = I.fresh("pattern_matches", "bool")

        def m(I2, a, k):
            got["text"] = a[0]
            return SOpt(z3.Not(hit.t), SObj("Match", {}))
        text, orig = I.fresh("current_text", "str"), I.fresh("source_text", "str")
        val = SObj(idx.lookup("sigma.types:SigmaString"), {"__str__": NativeFn("__str__", lambda I2, a, k: text), "original": orig}, lazy=True)
        me = SObj(idx.lookup(f"{CB}:TextQueryBackend"), {"str_quote": "" if case == "noquote" else '"', "str_quote_pattern": None if case in ("noquote", "nopattern") else SObj("Pattern", {"match": NativeFn("match", m)}),
                                                        "str_quote_pattern_negation": case == "pattern_negated"}, lazy=True)
        return {"self": me, "args": [val], "got": got, "hit": hit, "text": text, "case": case}

    def post(self, I, inp, r):
        case = inp["case"]
        t = ops.truth(I, r)
        if case == "noquote":
            I.ctx.require(t is False, "without quote character nothing is quoted")
        elif case == "nopattern":
            I.ctx.require(t is True, "without pattern everything is quoted")
        else:
            I.ctx.require(inp["got"].get("text") is inp["text"], "the pattern is matched against the current text of the value (str(value))")
            I.ctx.require(ops.mk_bool_term(t) == (z3.Not(inp["hit"].t) if case == "pattern_negated" else inp["hit"].t), "quoted iff the pattern matches (iff it does not, with negation)")

    def frame_ok(self, I, inp, obj, name):
        return False
