"""C19 bounded stand-in: all built-in validators on real collections, in several rule and validator orders."""
from __future__ import annotations
import itertools, random, tempfile, os, shutil
from pyvc.api import *

RULES = [
    ("r1", "11111111-1111-4111-8111-111111111111", "Title A", {"sel": {"f": "a"}, "filter_x": {"g": 1}, "unused": {"h": 2}, "condition": "sel and not 1 of filter_*"}),
    ("r2", "11111111-1111-4111-8111-111111111111", "Title A", {"notepad": {"f": "b"}, "_helper": {"g": 2}, "condition": "notepad and 1 of them"}),
    ("r3", "22222222-2222-4222-8222-222222222222", "Title A", {"s1": {"f": "c"}, "s2": {"f": "d"}, "condition": ["all of s*", "1 of nomatch*"]}),
    ("r4", "33333333-3333-4333-8333-333333333333", "Title B", {"sel": {"f|contains": "x*", "g": ["1", "1"]}, "condition": "sel or 1 of _*"}),
    ("r5", None, "Title C", {"sel": {"f": "e"}, "condition": "all of them"}),
    # validators that look up per-log-source tables: a mapped log source before and after an unmapped one
    ("r6", "44444444-4444-4444-8444-444444444444", "Title D", {"sel": {"EventID": 1, "Image|endswith": "\\a.exe"}, "condition": "sel"}, {"product": "windows", "service": "sysmon"}),
    ("r7", "55555555-5555-4555-8555-555555555555", "Title E", {"sel": {"EventID": [7, 11, 4688]}, "condition": "sel"}, {"product": "windows", "service": "system"}),
    ("r8", "66666666-6666-4666-8666-666666666666", "Title F", {"sel": {"EventID": 4688}, "condition": "sel"}, {"product": "windows", "service": "security"}),
    ("r9", "77777777-7777-4777-8777-777777777777", "Title G", {"sel": {"f": "g"}, "condition": ["1 of nomatch2*", "sel", "all of nope*"]}),
    # modifier chains the modifier validators look at (allowed repetitions, forbidden combinations, every list-valued attribute of an item)
    # values built by a modifier (they carry no original text): one with a control character, one without - each judged on its own
    ("r11", "99999999-9999-4999-8999-999999999999", "Title I", {"sel": {"p|contains": "C:\temp", "q|startswith": "ok"}, "condition": "sel"}),
    ("r12", "aaaaaaaa-aaaa-4aaa-8aaa-aaaaaaaaaaaa", "Title J", {"sel": {"p|contains": "clean", "q|endswith": "x\ny"}, "condition": "sel"}),
    ("r10", "88888888-8888-4888-8888-888888888888", "Title H", {"sel": {"a|base64|contains": "x", "b|base64|base64": "y", "c|base64offset|contains": "z", "d|contains|all": ["p", "q"], "e|re|i": "k.*", "g|windash|contains": "-x",
                                                                   "h|all": "single", "i|contains|contains": "dup", "j|cased|startswith": "Ab"}, "condition": "sel"}),
]
PIPELINE = {"name": "p", "priority": 10, "transformations": [{"id": "ac", "type": "add_condition", "conditions": {"idx": "main"}}, {"id": "fm", "type": "field_name_mapping", "mapping": {"f": "F"}}]}


def rule_doc(name, rid, title, det, logsource=None):
    d = {"title": title, "name": name, "status": "test", "level": "low", "logsource": logsource or {"category": "c"}, "detection": det, "references": ["http://x", "http://x"], "tags": ["attack.t1000", "attack.execution", "attack.t1000"]}          # (a duplicate, and not in alphabetical order)
    if rid:
        d["id"] = rid
    return d


def issue_key(i):
    rules = tuple(sorted(getattr(r, "name", None) or str(r) for r in i.rules))
    from uuid import UUID
    extra = tuple(sorted((k, str(v)) if isinstance(v, (str, int, UUID)) else (k, type(v).__name__ + ":" + str(getattr(v, "field", ""))) for k, v in vars(i).items() if k != "rules"))
    return (type(i).__name__, rules, extra)


@register
class C19Bounded(Bounded):
    id = "C19.bounded.validators"
    props = ("C19",)

    def run(self, tier, seed):
        from sigma.rule import SigmaRule
        from sigma.collection import SigmaCollection
        from sigma.validation import SigmaValidator
        from sigma.validators.core import validators
        from sigma.backends.test import TextQueryTestBackend
        from uuid import UUID
        rnd = random.Random(seed)
        ev = nontriv = 0
        seen, fails, samples = {}, [], []

        def fail(kind, text, inp):
            seen[kind] = seen.get(kind, 0) + 1
            if seen[kind] == 1:
                fails.append({"text": text, "input": inp})
        names = []
        for n in sorted(validators):        # validators that need network data (MITRE ATT&CK / D3FEND tag lists) cannot run in the sealed sandbox
            try:
                validators[n]().validate(SigmaRule.from_dict(rule_doc(*RULES[0])))
                names.append(n)
            except RuntimeError:
                pass
            except Exception:
                names.append(n)
        perms = [tuple(range(len(RULES))), tuple(reversed(range(len(RULES))))]
        perms += [(i,) + tuple(j for j in range(len(RULES)) if j != i) for i in range(len(RULES))][-4:]          # each of the last four rules (the ones with modifier-built values) first      # random orders (the number of all orders grows with the factorial of the number of rules)
        while len(perms) < (10 if tier == "quick" else 40):
            pm = tuple(rnd.sample(range(len(RULES)), len(RULES)))
            if pm not in perms:
                perms.append(pm)
        vorders = [names, list(reversed(names))] + [rnd.sample(names, len(names)) for _ in range(2 if tier == "quick" else 6)]
        baseline = None
        for perm in perms:
            for vo in vorders:
                ev += 1
                nontriv += 1
                rules = [SigmaRule.from_dict(rule_doc(*RULES[i])) for i in perm]
                from sigma.processing.pipeline import ProcessingPipeline
                mkb = lambda: TextQueryTestBackend(ProcessingPipeline.from_dict(PIPELINE))      # a pipeline that rewrites conditions and fields
                before = [(r.to_dict(), TextQueryTestBackend().convert_rule(SigmaRule.from_dict(rule_doc(*RULES[i]))), mkb().convert_rule(SigmaRule.from_dict(rule_doc(*RULES[i])))) for r, i in zip(rules, perm)]
                v = SigmaValidator([validators[n] for n in vo])
                issues = v.validate_rules(iter(rules))
                after = [(r.to_dict(), TextQueryTestBackend().convert_rule(SigmaRule.from_dict(r.to_dict())) if False else TextQueryTestBackend().convert_rule(r)) for r in rules]
                # conversion through the pipeline of the VALIDATED objects (fresh copies of them for the plain conversion above would hide state kept on the object)
                rules_p = [SigmaRule.from_dict(rule_doc(*RULES[i])) for i in perm]
                SigmaValidator([validators[n] for n in vo]).validate_rules(iter(rules_p))
                after = [a + (mkb().convert_rule(rp),) for a, rp in zip(after, rules_p)]
                if before != after:
                    k = [RULES[i][0] for (b, a, i) in zip(before, after, perm) if b != a]
                    fail("mutated", f"validation changed the rules {k} (dict form or queries differ before / after); validator order {vo[:4]}..", [list(perm)])
                keys = sorted(issue_key(i) for i in issues)
                if baseline is None:
                    baseline = keys
                    samples += [str(k)[:200] for k in keys[:5]]
                elif keys != baseline:
                    diff = [k for k in keys if k not in baseline] + [k for k in baseline if k not in keys]
                    fail("order", f"the set of issues depends on rule / validator order: rule order {[RULES[i][0] for i in perm]}; differing issues {diff[:3]}", [list(perm)])
        # exactness of the reference checks on the known rule set
        exp = {("DanglingDetectionIssue", ("r1",), "unused"), ("DanglingDetectionIssue", ("r2",), "_helper"), ("DanglingConditionIssue", ("r3",), "nomatch*"), ("DanglingConditionIssue", ("r4",), "_*"),
               ("DanglingConditionIssue", ("r9",), "nomatch2*"), ("DanglingConditionIssue", ("r9",), "nope*")}
        got = set()
        for k in baseline or []:
            if k[0] in ("DanglingDetectionIssue", "DanglingConditionIssue"):
                got.add((k[0], k[1], dict(k[2]).get("detection_name") or dict(k[2]).get("condition_name")))
        ev += 1
        if got != exp:
            fail("exactness", f"reference checks report {sorted(got)}, expected exactly {sorted(exp)}", [])
        groups = {(k[0], k[1]) for k in (baseline or []) if k[0] in ("IdentifierCollisionIssue", "DuplicateTitleIssue")}
        wantg = {("IdentifierCollisionIssue", ("r1", "r2")), ("DuplicateTitleIssue", ("r1", "r2", "r3"))}
        if groups != wantg:
            fail("groups", f"uniqueness issues name the groups {sorted(groups)}, expected {sorted(wantg)}", [])
        # one validator object fed in two rounds: after the second round the uniqueness groups are the groups over every rule it was given
        # (an id / title seen once in the first round and again in the second is a collision)
        for split in (1, 2, 4):
            ev += 1
            nontriv += 1
            rules = [SigmaRule.from_dict(rule_doc(*r)) for r in RULES]
            v2 = SigmaValidator([validators[n] for n in names])
            v2.validate_rules(iter(rules[:split]))
            second = v2.validate_rules(iter(rules[split:]))
            g2 = {(issue_key(i)[0], issue_key(i)[1]) for i in second if type(i).__name__ in ("IdentifierCollisionIssue", "DuplicateTitleIssue")}
            if g2 != wantg:
                fail("two-rounds", f"rules given to one validator in two rounds (first {split}, then the rest): uniqueness groups after the second round {sorted(g2)}, over all rules {sorted(wantg)}", [split])
        # exclusions suppress exactly the excluded validator for the excluded rule id
        ev += 1
        rules = [SigmaRule.from_dict(rule_doc(*r)) for r in RULES]
        v = SigmaValidator([validators[n] for n in names], exclusions={UUID(RULES[2][1]): {validators["dangling_condition"]}})
        keys2 = sorted(issue_key(i) for i in v.validate_rules(iter(rules)))
        missing = [k for k in (baseline or []) if k not in keys2]
        if [(k[0], k[1]) for k in missing] != [("DanglingConditionIssue", ("r3",))] or [k for k in keys2 if k not in (baseline or [])]:
            fail("exclusions", f"excluding dangling_condition for r3 changed the issues by {missing} / added {[k for k in keys2 if k not in (baseline or [])][:3]}", [])
        # validation AFTER conversion through a pipeline that rewrites the conditions (add_condition) and fields: the reference checks are exact
        # about the conditions the rules have NOW - the added detection is referred to by every condition, so nothing new is unused / dangling
        ev += 1
        nontriv += 1
        from sigma.processing.pipeline import ProcessingPipeline
        rules = [SigmaRule.from_dict(rule_doc(*r)) for r in RULES]
        refv = lambda: SigmaValidator([validators["dangling_detection"], validators["dangling_condition"]])
        def refkeys(issues):
            out = set()
            for i in issues:
                k = issue_key(i)
                out.add((k[0], k[1], dict(k[2]).get("detection_name") or dict(k[2]).get("condition_name")))
            return out
        before_c = refkeys(refv().validate_rules(iter(rules)))
        b = TextQueryTestBackend(ProcessingPipeline.from_dict(PIPELINE), collect_errors=True)
        b.convert(SigmaCollection(rules))
        after_c = refkeys(refv().validate_rules(iter(rules)))
        # (r4's selector `1 of _*` is no longer dangling afterwards: the detection added by add_condition has an underscore name and matches it)
        exp_after = exp - {("DanglingConditionIssue", ("r4",), "_*")}
        if before_c != exp or after_c != exp_after:
            fail("after-conversion", f"reference checks before conversion {sorted(before_c ^ exp)} / after conversion through a pipeline that adds a condition {sorted(after_c ^ exp_after)} differ from the exact set (symmetric differences shown)", [])
        # titles that differ only in case are different titles: the duplicate groups are exact in every rule order
        titles = ["Foo", "foo", "Foo", "Bar", "BAR", "Bar"]
        trules = [SigmaRule.from_dict(rule_doc(f"t{i}", None, t, {"sel": {"f": i}, "condition": "sel"})) for i, t in enumerate(titles)]
        tperms = list(itertools.permutations(range(6)))
        rnd.shuffle(tperms)
        for perm in tperms[: (120 if tier == "quick" else 720)]:
            ev += 1
            nontriv += 1
            vv = SigmaValidator([validators["duplicate_title"], validators["identifier_uniqueness"]])
            grp = sorted(issue_key(i)[1] for i in vv.validate_rules(iter([trules[i] for i in perm])) if type(i).__name__ == "DuplicateTitleIssue")
            if grp != [("t0", "t2"), ("t3", "t5")]:
                fail("title-groups", f"duplicate titles {titles} in rule order {list(perm)}: reported groups {grp}, expected exactly [('t0', 't2'), ('t3', 't5')]", [list(perm)])
        # tag validators: every malformed / unknown tag is reported by the validator of ITS namespace, whichever validators ran before and in
        # whatever order the rules come (tlp / car / cve / detection / stp namespaces, valid and malformed names in each)
        tagsets = [["car.2016-04-005", "car.16-4-5", "cve.2021-44228", "cve.abc", "detection.dfir", "detection.nope", "stp.4k", "stp.9z", "tlp.amber", "tlp.purple"],
                   ["cve.abc", "car.abc", "stp.abc", "detection.abc"], ["car.2016-04-005", "cve.2016-04-005", "stp.1", "cve.1"]]
        trules2 = [SigmaRule.from_dict({**rule_doc(f"g{i}", None, f"Tag rule {i}", {"sel": {"f": i}, "condition": "sel"}), "tags": ts}) for i, ts in enumerate(tagsets)]
        tagv = [n for n in names if n in ("cartag", "cvetag", "detection_tag", "stptag", "tlptag", "tlpv1_tag", "tlpv2_tag", "namespace_tag", "tag_format", "duplicate_tag")]
        want_tags = None
        orders = list(itertools.permutations(range(len(trules2))))
        vperms = [tagv, list(reversed(tagv))] + [rnd.sample(tagv, len(tagv)) for _ in range(4 if tier == "quick" else 20)]
        for ro in orders:
            for vo in vperms:
                ev += 1
                nontriv += 1
                got = sorted((type(i).__name__, issue_key(i)[1], str(getattr(i, "tag", ""))) for i in SigmaValidator([validators[n] for n in vo]).validate_rules(iter([trules2[i] for i in ro])))
                if want_tags is None:
                    want_tags = got
                    bad = {(r, t) for (_, r, t) in got}
                    for exp_bad in (("g0", "car.16-4-5"), ("g0", "cve.abc"), ("g0", "detection.nope"), ("g0", "stp.9z"), ("g0", "tlp.purple"), ("g1", "car.abc"), ("g1", "stp.abc"), ("g1", "detection.abc"), ("g2", "cve.2016-04-005") if False else ("g1", "cve.abc")):
                        if ((exp_bad[0],), exp_bad[1]) not in bad:
                            fail("tags-exact", f"the malformed tag {exp_bad[1]} of rule {exp_bad[0]} is not reported (reported: {sorted(bad)[:12]})", [list(exp_bad)])
                    for ok_tag in ("car.2016-04-005", "cve.2021-44228", "detection.dfir", "stp.4k", "tlp.amber", "stp.1"):
                        if any(t == ok_tag and n.endswith("PatternIssue") for (n, _, t) in got):
                            fail("tags-exact", f"the well-formed tag {ok_tag} is reported as malformed", [ok_tag])
                elif got != want_tags:
                    diff = [x for x in got if x not in want_tags] + [x for x in want_tags if x not in got]
                    fail("tags-order", f"tag issues depend on rule order {list(ro)} / validator order {vo[:4]}..: differing {diff[:3]}", [list(ro), vo])
        # duplicate file names: groups are exact and independent of rule order
        root = tempfile.mkdtemp(prefix="c19_")
        try:
            from sigma.rule import SigmaRule as SR
            import yaml
            layout = {"a/x.yml": [RULES[0], RULES[1]], "b/x.yml": [RULES[2]], "c/y.yml": [RULES[3]]}
            for p, rs in layout.items():
                os.makedirs(os.path.dirname(os.path.join(root, p)), exist_ok=True)
                open(os.path.join(root, p), "w").write("---\n".join(yaml.safe_dump(rule_doc(*r)) for r in rs))
            want = None
            for _ in range(4 if tier == "quick" else 12):
                ev += 1
                col = SigmaCollection.load_ruleset([root])
                rl = list(col.rules)
                rnd.shuffle(rl)
                vv = SigmaValidator([validators["duplicate_filename"]])
                ks = sorted(issue_key(i) for i in vv.validate_rules(iter(rl)))
                grp = [k[1] for k in ks]
                if want is None:
                    want = grp
                    if grp != [("r1", "r2", "r3")]:
                        fail("filename-groups", f"duplicate file name x.yml: reported groups {grp}, expected [('r1', 'r2', 'r3')]", [])
                elif grp != want:
                    fail("filename-order", f"duplicate-filename groups depend on rule order: {grp} vs {want}", [])
        finally:
            shutil.rmtree(root, ignore_errors=True)
        return {"evaluations": ev, "distinct_nontrivial": nontriv, "failures": fails, "failure_counts": seen,
                "bound": f"{len(RULES)} rules (duplicate ids / titles / file names, keyword- and underscore-prefixed names, dangling selectors) x {len(perms)} rule orders x {len(vorders)} validator orders x all {len(names)} built-in validators",
                "rule": "distinct (rule order, validator order)", "samples": samples, "exhaustive": False}
