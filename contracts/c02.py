"""C02 - condition text parses to the boolean function it spells: the code after the (external) pyparsing grammar.

Selector resolution spec (A.9): resolve(pattern, names) = [n for n in names if glob(pattern', n) and (pattern starts with '_' or n does not)],
pattern' = '*' for 'them'."""
from __future__ import annotations
import z3
from pyvc.api import *
from pyvc.values import *
from pyvc import ops

COND = "sigma.conditions"


def glob(p, s):
    """does the name pattern p ('*' = any run of characters) match s completely (uninterpreted; assumed == re.fullmatch(p.replace('*', '.*'), s))"""
    return z3.Function("glob", z3.StringSort(), z3.StringSort(), z3.BoolSort())(p, s)


def install_re(E):
    def x_compile(I, a, k):
        pat = I.force(a[0])
        if isinstance(pat, str):
            if pat != ".*":
                raise OutsideSubset("re.compile of another constant")
            return SObj("Regex", {"fullmatch": NativeFn("fullmatch", lambda I2, a2, k2: True)})
        cm = getattr(pat, "charmap", None)
        if cm is None or cm[1] != {"*": ".*"}:
            raise OutsideSubset("re.compile of a pattern that is not name_pattern.replace('*', '.*')")
        base = mk_str(cm[0])
        return SObj("Regex", {"fullmatch": NativeFn("fullmatch", lambda I2, a2, k2: Sym(glob(base, mk_str(I2.force(a2[0]))), "bool"))})
    E.externals["re.compile"] = x_compile


@register
class ResolveReferencedDetections(Contract):
    id = "C02.ConditionSelector.resolve_referenced_detections"
    target = f"{COND}:ConditionSelector.resolve_referenced_detections"
    props = ("C02", "C11", "C19", "C12")
    cases = tuple((n, them) for n in (0, 1, 2, 3) for them in (False, True))
    assumed = ["re.fullmatch(p.replace('*', '.*'), name) <=> glob(p, name) for name patterns over [A-Za-z0-9_*] (checked natively by the bounded tier)", "0..3 detection names (unrolled), contents symbolic"]

    def setup(self, E):
        install_re(E)

    def args(self, I, case):
        n, them = case
        names = [I.fresh(f"name{i}", "str") for i in range(n)]
        pattern = "them" if them else I.fresh("pattern", "str")
        if not them:
            I.ctx.assume(pattern.t != z3.StringVal("them"))
        dets = SObj("Detections", {"detections": {nm: SObj("Detection", {}) for nm in names}})
        me = SObj(I.E.index.lookup(f"{COND}:ConditionSelector"), {"pattern": pattern, "args": ["1", pattern]}, lazy=True)
        return {"self": me, "args": [dets], "names": names, "pattern": pattern}

    def post(self, I, inp, r):
        c = I.ctx
        p = inp["pattern"]
        pt = mk_str(p)
        ok = isinstance(r, list) and all(isinstance(x, SObj) and x.cls.name == "ConditionIdentifier" for x in r)
        c.require(ok, "returns a list of identifiers")
        if not ok:
            return
        got = [x.fields["args"][0] for x in r]
        # spec, decided along this path: name i is included iff it matches and the underscore rule allows it
        j = 0
        for nm in inp["names"]:
            m = z3.BoolVal(True) if isinstance(p, str) else glob(pt, nm.t)
            allowed = z3.Or(z3.PrefixOf(z3.StringVal("_"), pt), z3.Not(z3.PrefixOf(z3.StringVal("_"), nm.t)))
            inc = z3.And(m, allowed)
            here = j < len(got) and got[j] is nm
            c.require(inc == z3.BoolVal(bool(here)), "a detection is selected iff its name matches the pattern and (the pattern starts with '_' or the name does not)")
            if here:
                j += 1
        c.require(j == len(got), "in detection order, nothing else")

    def frame_ok(self, I, inp, obj, name):
        return False


@register
class SelectorPostInit(Contract):
    id = "C02.ConditionSelector.__post_init__"
    target = f"{COND}:ConditionSelector.__post_init__"
    props = ("C02",)
    cases = ("1", "any", "all", "2")

    def args(self, I, case):
        pat = I.fresh("pattern", "str")
        me = SObj(I.E.index.lookup(f"{COND}:ConditionSelector"), {"args": [case, pat], "source": None})
        return {"self": me, "args": [], "case": case, "pat": pat}

    def post(self, I, inp, r):
        me = inp["self"]
        want = {"1": "ConditionOR", "any": "ConditionOR", "all": "ConditionAND"}.get(inp["case"])
        I.ctx.require(want is not None and isinstance(me.fields.get("cond_class"), ClassRef) and me.fields["cond_class"].info.name == want, "'1' / 'any' -> OR, 'all' -> AND")
        I.ctx.require(me.fields.get("pattern") is inp["pat"], "pattern is the second token")

    def raises(self, I, inp, exc):
        I.ctx.require(exc_is(I, exc, "SigmaConditionError") and inp["case"] == "2", "SigmaConditionError exactly for an unknown quantifier", kind="SAFE")

    def frame_ok(self, I, inp, obj, name):
        return obj is inp["self"] and name in ("cond_class", "pattern")


@register
class ConditionItemFromParsed(Contract):
    """operator node construction from the pyparsing result of one precedence level: NOT takes exactly the operand that follows the
    keyword (nothing is merged or dropped: 'not not x' stays NOT(NOT(x))), AND / OR take every operand of the level in order, nested
    groups stay nested"""
    id = "C02.ConditionItem.from_parsed"
    target = f"{COND}:ConditionItem.from_parsed"
    props = ("C02", "C01", "C11", "C12")
    cases = tuple((cls, n, nest) for cls in ("ConditionAND", "ConditionOR", "ConditionNOT") for n in (1, 2, 3, 4) for nest in (False, True)
                  if (cls == "ConditionNOT") == (n == 1))
    assumed = ["pyparsing hands over ParseResults whose element 0 is the token group of the level: [operand, keyword, operand, ...] for binary "
               "operators, [keyword, operand] for NOT (pyparsing infix_notation, external)"]

    def setup(self, E):
        E.external_isinstance["pyparsing.ParseResults"] = lambda I, v: isinstance(v, SObj) and v.cls == "ParseResults"
        E.external_isinstance["pyparsing.results.ParseResults"] = lambda I, v: isinstance(v, SObj) and v.cls == "ParseResults"
        E.external_getitem = {"ParseResults": lambda I2, a, k: a[0].ghost["items"][I2.force(a[1])] if isinstance(I2.force(a[1]), (int, slice)) else (_ for _ in ()).throw(OutsideSubset("ParseResults key"))}

    def args(self, I, case):
        cname, n, nest = case
        cls = I.E.index.lookup(f"{COND}:{cname}")
        # operands: abstract trees; with nest, the first (for NOT: the only) operand is itself a node of the SAME class
        operands = []
        for i in range(n):
            if nest and i == 0:
                operands.append(SObj(cls, {"args": [SObj("Tree", {}, ghost={"i": "inner"})] if n == 1 else [SObj("Tree", {}, ghost={"i": "in0"}), SObj("Tree", {}, ghost={"i": "in1"})], "source": None, "parent": None}))
            else:
                operands.append(SObj("Tree", {}, ghost={"i": i}))
        kw = {"ConditionAND": "and", "ConditionOR": "or", "ConditionNOT": "not"}[cname]
        group = ["not", operands[0]] if n == 1 else [x for i, o in enumerate(operands) for x in ((kw, o) if i else (o,))]
        t = SObj("ParseResults", {}, ghost={"items": [group]})
        return {"self": ClassRef(cls), "args": [I.fresh("s", "str"), I.fresh("loc", "int"), t], "operands": operands, "cls": cls, "inner": list(operands[0].fields["args"]) if nest else None}

    def post(self, I, inp, r):
        c = I.ctx
        ok = isinstance(r, list) and len(r) == 1 and isinstance(r[0], SObj) and r[0].cls is inp["cls"]
        c.require(ok, "exactly one node of the operator's class is produced")
        if ok:
            a = r[0].fields.get("args")
            a = I.force(a) if not isinstance(a, list) else a
            binary = getattr(inp["cls"], "name", "") != "ConditionNOT"

            def flat(xs):       # AND / OR are associative: a nested node of the same class denotes the same as its arguments in place
                out = []
                for x in xs:
                    if binary and isinstance(x, SObj) and x.cls is inp["cls"] and isinstance(x.fields.get("args"), list):
                        out += flat(x.fields["args"])
                    else:
                        out.append(x)
                return out
            want = flat(inp["operands"])
            c.require(isinstance(a, list) and (binary or len(a) == 1) and len(flat(a)) == len(want) and all(x is y for x, y in zip(flat(a), want)),
                      "the node's arguments are exactly the operands of the level, in order (up to associativity of AND / OR; NOT keeps its single operand, also when that is a NOT)")
            if inp["inner"] is not None and r[0].fields.get("args") and any(x is inp["operands"][0] for x in a):
                ia = inp["operands"][0].fields["args"]
                c.require(isinstance(ia, list) and len(ia) == len(inp["inner"]) and all(x is y for x, y in zip(ia, inp["inner"])), "the nested node keeps its own arguments")

    def frame_ok(self, I, inp, obj, name):
        return False


@register
class ConditionItemPostprocess(Contract):
    """AND / OR / NOT postprocessing: children postprocessed in order, vanished (None) children dropped, a binary node with one child left
    is that child, a node with no child left vanishes"""
    id = "C02.ConditionItem.postprocess"
    target = f"{COND}:ConditionItem.postprocess"
    props = ("C02", "C01")
    cases = tuple((cls, shape) for cls in ("ConditionAND", "ConditionOR", "ConditionNOT") for shape in ("", "k", "v", "kk", "kv", "vk", "vv", "kkk", "kvk", "Nk")
                  if cls != "ConditionNOT" or len(shape.replace("N", "")) <= 1)       # NOT has exactly one operand
    assumed = ["children are abstract: their postprocess returns a tree or None"]

    def args(self, I, case):
        cls, shape = case
        kids, results = [], []
        for i, ch in enumerate(shape):
            if ch == "N":
                kids.append(None)
                continue
            res = None if ch == "v" else SObj("Tree", {}, ghost={"i": i})
            results.append(res)
            k = SObj("Child", {"postprocess": NativeFn("postprocess", lambda I2, a, kw, res=res: res)})
            kids.append(k)
        me = SObj(I.E.index.lookup(f"{COND}:{cls}"), {"args": kids, "source": None})
        return {"self": me, "args": [I.fresh("detections", "opaque", "Detections")], "case": case, "results": results}

    def post(self, I, inp, r):
        cls, shape = inp["case"]
        left = [x for x in inp["results"] if x is not None]
        me = inp["self"]
        binary = cls != "ConditionNOT"
        # the result DENOTES the operator applied to the non-vanished children (None children are "no condition" and are skipped by every
        # consumer): it is None, the single remaining child, or the node itself holding exactly the remaining children (None entries allowed)
        kept = [a for a in me.fields["args"] if a is not None] if r is me else None
        if not left:
            I.ctx.require(r is None or (r is me and kept == []), "a node whose children all vanished denotes no condition")
        elif binary and len(left) == 1:
            I.ctx.require(r is left[0] or (r is me and len(kept) == 1 and kept[0] is left[0]), "AND / OR with a single child left denotes that child")
        else:
            I.ctx.require(r is me and len(kept) == len(left) and all(a is b for a, b in zip(kept, left)), "the node keeps exactly the non-vanished children, in order")

    def frame_ok(self, I, inp, obj, name):
        return obj is inp["self"] and name in ("args", "parent", "source")


@register
class IdentifierPostprocess(Contract):
    id = "C02.ConditionIdentifier.postprocess"
    target = f"{COND}:ConditionIdentifier.postprocess"
    props = ("C02",)
    cases = ("defined", "missing")

    def args(self, I, case):
        res = SObj("Tree", {})
        det = SObj("Detection", {"postprocess": NativeFn("postprocess", lambda I2, a, k: res)})

        def getitem(I2, a, k):
            if case == "missing":
                from pyvc.interp import PyRaise
                raise PyRaise(ExcValue("KeyError", (a[0],)))
            return det
        dets = SObj(I.E.index.lookup("sigma.rule.detection:SigmaDetections"), {"detections": {}})
        I.E.summaries["sigma.rule.detection:SigmaDetections.__getitem__"] = lambda I2, so, a, k: getitem(I2, a, k)
        me = SObj(I.E.index.lookup(f"{COND}:ConditionIdentifier"), {"args": ["x"], "identifier": "x"}, lazy=True)
        return {"self": me, "args": [dets], "case": case, "res": res}

    def post(self, I, inp, r):
        I.ctx.require(inp["case"] == "defined" and r is inp["res"], "an identifier stands for the (postprocessed) detection of that name")

    def raises(self, I, inp, exc):
        I.ctx.require(exc_is(I, exc, "SigmaConditionError") and inp["case"] == "missing", f"SigmaConditionError exactly for an undefined detection name (got {exc_name(exc)})", kind="SAFE")

    def frame_ok(self, I, inp, obj, name):
        return obj is inp["self"] and name == "parent"


@register
class SelectorPostprocess(Contract):
    """ConditionSelector.postprocess: the selector becomes the OR / AND over exactly the detections its pattern matches NOW - the names
    the rule's detections have at this call (pipelines and direct edits add detections between two parses of the same rule), in order"""
    id = "C02.ConditionSelector.postprocess"
    target = f"{COND}:ConditionSelector.postprocess"
    props = ("C02", "C15", "C19")
    cases = tuple((q, hist) for q in ("1", "all") for hist in (False, True))
    assumed = ["resolve_referenced_detections by its contract (reads the current detection names); ConditionItem.postprocess of the built node is abstract"]

    def setup(self, E):
        def s_resolve(I, so, a, k):
            CI = I.E.index.lookup(f"{COND}:ConditionIdentifier")
            return [SObj(CI, {"args": [n], "identifier": n}, lazy=True) for n in a[0].fields["detections"] if n.startswith("sel")]
        E.summaries[f"{COND}:ConditionSelector.resolve_referenced_detections"] = s_resolve
        E.summaries[f"{COND}:ConditionItem.postprocess"] = lambda I, so, a, k: so

    def args(self, I, case):
        q, hist = case
        idx = I.E.index
        dets = SObj(idx.lookup("sigma.rule.detection:SigmaDetections"), {"detections": {"sel1": SObj("Det", {}), "other": SObj("Det", {})}, "condition": ["1 of sel*"], "source": None}, lazy=True)
        me = SObj(idx.lookup(f"{COND}:ConditionSelector"), {"args": [q, "sel*"], "pattern": "sel*", "cond_class": ClassRef(idx.lookup(f"{COND}:ConditionOR" if q == "1" else f"{COND}:ConditionAND")), "source": None, "parent": None}, lazy=True)
        return {"self": me, "args": [dets], "dets": dets, "case": case}

    def before(self, I, inp):
        if inp["case"][1]:      # history: the same condition was parsed before (validator, earlier conversion), then a detection was added
            I.call_function(I.E.index.lookup(self.target), inp["self"], [inp["dets"]], {})
            inp["dets"].fields["detections"]["sel_new"] = SObj("Det", {})

    def post(self, I, inp, r):
        q, hist = inp["case"]
        want = ["sel1"] + (["sel_new"] if hist else [])
        ok = isinstance(r, SObj) and getattr(r.cls, "name", "") == ("ConditionOR" if q == "1" else "ConditionAND") and isinstance(r.fields.get("args"), list)
        I.ctx.require(ok, "an OR ('1 of' / 'any of') respectively AND ('all of') node is built")
        if ok:
            got = [I.force(x.fields.get("identifier")) if isinstance(x, SObj) else None for x in r.fields["args"]]
            I.ctx.require(got == want, f"over exactly the detections matching now, in order: {want} (got {got})")

    def frame_ok(self, I, inp, obj, name):
        return True
