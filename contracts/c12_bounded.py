"""C12 bounded stand-in: every built-in transformation that can be written in pipeline YAML, applied through a real pipeline, compared
with the rule document rewritten by hand as the transformation is documented (queries compared as boolean functions of their atoms)."""
from __future__ import annotations
import copy, itertools, re
from pyvc.api import *


def tokenize(q):
    toks, i = [], 0
    pat = re.compile(r'\s+|\(|\)|\band\b|\bor\b|\bnot\b')
    atom = ""
    depth_in = 0
    while i < len(q):
        m = re.match(r'[^\s()"=]+ in \((?:"(?:[^"\\]|\\.)*"|[^)"])*\)', q[i:])
        if m and not atom:
            toks.append(("atom", m.group(0)))
            i += m.end()
            continue
        if q[i] == '"':
            j = i + 1
            while j < len(q) and q[j] != '"':
                j += 2 if q[j] == "\\" else 1
            atom += q[i:j + 1]
            i = j + 1
            continue
        m = re.match(r"\(|\)|and\b|or\b|not\b", q[i:])
        if m and (not atom or q[i] in "()"  or atom.endswith(" ")):
            if atom.strip():
                toks.append(("atom", atom.strip()))
            atom = ""
            toks.append((m.group(0), m.group(0)))
            i += m.end()
            continue
        atom += q[i]
        i += 1
    if atom.strip():
        toks.append(("atom", atom.strip()))
    return toks


def parse(toks):
    pos = [0]

    def peek():
        return toks[pos[0]][0] if pos[0] < len(toks) else None

    def eat():
        pos[0] += 1
        return toks[pos[0] - 1]

    def p_or():
        l = p_and()
        while peek() == "or":
            eat()
            l = ("or", l, p_and())
        return l

    def p_and():
        l = p_not()
        while peek() == "and":
            eat()
            l = ("and", l, p_not())
        return l

    def p_not():
        if peek() == "not":
            eat()
            return ("not", p_not())
        if peek() == "(":
            eat()
            e = p_or()
            eat()
            return e
        return ("atom", eat()[1])
    return p_or()


def atoms_of(e, acc):
    if e[0] == "atom":
        m = re.match(r'(\S+) in \((.*)\)$', e[1])
        if m:
            for v in re.findall(r'"(?:[^"\\]|\\.)*"|[^,\s]+', m.group(2)):
                acc.add(f"{m.group(1)}={v}")
        else:
            acc.add(e[1])
    else:
        for x in e[1:]:
            atoms_of(x, acc)


def ev(e, env):
    if e[0] == "atom":
        m = re.match(r'(\S+) in \((.*)\)$', e[1])
        if m:
            return any(env[f"{m.group(1)}={v}"] for v in re.findall(r'"(?:[^"\\]|\\.)*"|[^,\s]+', m.group(2)))
        return env[e[1]]
    if e[0] == "not":
        return not ev(e[1], env)
    if e[0] == "and":
        return ev(e[1], env) and ev(e[2], env)
    return ev(e[1], env) or ev(e[2], env)


def equivalent(q1, q2):
    try:
        e1, e2 = parse(tokenize(q1)), parse(tokenize(q2))
    except Exception:
        return q1 == q2
    a = set()
    atoms_of(e1, a)
    b = set()
    atoms_of(e2, b)
    if a != b:
        return False
    names = sorted(a)
    if len(names) > 12:
        return q1 == q2
    for bits in itertools.product((False, True), repeat=len(names)):
        env = dict(zip(names, bits))
        if ev(e1, env) != ev(e2, env):
            return False
    return True


def R(det, cond="sel or kw", fields=None, logsource=None):
    d = {"title": "t", "logsource": logsource or {"category": "c", "product": "p"}, "detection": {**det, "condition": cond}}
    if fields:
        d["fields"] = fields
    return d


BASE = {"sel": {"f": "a", "g|contains": ["x", "y"]}, "kw": ["k1", "k2"]}
CASES = [
    ("field one-to-one", {"type": "field_name_mapping", "mapping": {"f": "f2"}}, R(BASE, fields=["f", "g"]), R({"sel": {"f2": "a", "g|contains": ["x", "y"]}, "kw": ["k1", "k2"]}, fields=["f2", "g"])),
    ("field one-to-many", {"type": "field_name_mapping", "mapping": {"f": ["f2", "f3"]}}, R(BASE), R({"s1": [{"f2": "a"}, {"f3": "a"}], "s2": {"g|contains": ["x", "y"]}, "kw": ["k1", "k2"]}, "(s1 and s2) or kw")),
    ("field one-to-many all", {"type": "field_name_mapping", "mapping": {"g": ["g1", "g2"]}}, R({"sel": {"g|contains|all": ["x", "y"]}}, "sel"), R({"s1": [{"g1|contains|all": ["x", "y"]}, {"g2|contains|all": ["x", "y"]}]}, "s1")),
    ("field prefix", {"type": "field_name_prefix", "prefix": "p_"}, R(BASE, fields=["f"]), R({"sel": {"p_f": "a", "p_g|contains": ["x", "y"]}, "kw": ["k1", "k2"]}, fields=["p_f"])),
    ("field suffix", {"type": "field_name_suffix", "suffix": "_s"}, R(BASE), R({"sel": {"f_s": "a", "g_s|contains": ["x", "y"]}, "kw": ["k1", "k2"]})),
    ("prefix mapping", {"type": "field_name_prefix_mapping", "mapping": {"f": "zz"}}, R({"sel": {"f": "a", "fx": "b", "g": "c"}}, "sel"), R({"sel": {"zz": "a", "zzx": "b", "g": "c"}}, "sel")),
    ("prefix mapping, prefix text repeated inside the name", {"type": "field_name_prefix_mapping", "mapping": {"win.": "w."}}, R({"sel": {"win.data.win.image": "a", "x|fieldref": "win.a.win.b"}}, "not sel", fields=["win.x.win.y"]),
     R({"sel": {"w.data.win.image": "a", "x|fieldref": "w.a.win.b"}}, "not sel", fields=["w.x.win.y"])),
    ("prefix mapping one-to-many, repeated prefix", {"type": "field_name_prefix_mapping", "mapping": {"ab": ["x", "y"]}}, R({"sel": {"abab": "a"}}, "not sel"), R({"s": [{"xab": "a"}, {"yab": "a"}]}, "not s")),
    ("regex flags survive placeholder expansion", {"type": "value_placeholders"}, R({"sel": {"f|re|i|expand": "^%v%$"}}, "not sel"), R({"sel": {"f|re|i": ["^V1$", "^V2$"]}}, "not sel")),
    ("regex flags survive wildcard placeholders", {"type": "wildcard_placeholders"}, R({"sel": {"f|re|m|s|expand": "a%v%b"}}, "sel"), R({"sel": {"f|re|m|s": "a.*b"}}, "sel")),
    ("field in fieldref", {"type": "field_name_mapping", "mapping": {"f": "f2"}}, R({"sel": {"x|fieldref": "f", "f|fieldref": "y"}}, "sel"), R({"sel": {"x|fieldref": "f2", "f2|fieldref": "y"}}, "sel")),
    ("drop item", {"type": "drop_detection_item", "field_name_conditions": [{"type": "include_fields", "fields": ["g"]}]}, R(BASE), R({"sel": {"f": "a"}, "kw": ["k1", "k2"]})),
    ("add condition", {"type": "add_condition", "conditions": {"idx": "main"}}, R(BASE), R({"sel": {"f": "a", "g|contains": ["x", "y"]}, "kw": ["k1", "k2"], "c": {"idx": "main"}}, "c and (sel or kw)")),
    ("add negated condition", {"type": "add_condition", "conditions": {"idx": "main"}, "negated": True}, R(BASE), R({"sel": {"f": "a", "g|contains": ["x", "y"]}, "kw": ["k1", "k2"], "c": {"idx": "main"}}, "not c and (sel or kw)")),
    ("add templated condition", {"type": "add_condition", "conditions": {"idx": "$category-$product"}, "template": True}, R(BASE), R({"sel": {"f": "a", "g|contains": ["x", "y"]}, "kw": ["k1", "k2"], "c": {"idx": "c-p"}}, "c and (sel or kw)")),
    ("replace string", {"type": "replace_string", "regex": "x", "replacement": "zz"}, R(BASE), R({"sel": {"f": "a", "g|contains": ["zz", "y"]}, "kw": ["k1", "k2"]})),
    ("map string", {"type": "map_string", "mapping": {"a": ["p", "q"]}}, R(BASE), R({"sel": {"f": ["p", "q"], "g|contains": ["x", "y"]}, "kw": ["k1", "k2"]})),
    ("set value", {"type": "set_value", "value": "new", "field_name_conditions": [{"type": "include_fields", "fields": ["f"]}]}, R(BASE), R({"sel": {"f": "new", "g|contains": ["x", "y"]}, "kw": ["k1", "k2"]})),
    ("set value on values of every type", {"type": "set_value", "value": "new", "field_name_conditions": [{"type": "include_fields", "fields": ["f", "g", "h", "i", "k", "m"]}]},
     R({"sel": {"f|re": "a.*", "g|cidr": "10.0.0.0/8", "h|gte": 5, "i|exists": True, "j": "keep", "k|windash": "-x", "m|fieldref": "other"}}, "sel"),
     R({"sel": {"f": "new", "g": "new", "h": "new", "i": "new", "j": "keep", "k": "new", "m": "new"}}, "sel")),
    ("case upper", {"type": "case", "method": "upper"}, R(BASE), R({"sel": {"f": "A", "g|contains": ["X", "Y"]}, "kw": ["K1", "K2"]})),
    ("case lower on case-sensitive values", {"type": "case", "method": "lower"}, R({"sel": {"f|cased": "AbC", "g|cased|endswith": "\\Pw.EXE", "h|cased|contains": ["X*Y", "z"]}}, "not sel"),
     R({"sel": {"f|cased": "abc", "g|cased|endswith": "\\pw.exe", "h|cased|contains": ["x*y", "z"]}}, "not sel")),
    ("replace string (skip_special) on case-sensitive values", {"type": "replace_string", "regex": "b", "replacement": "QQ", "skip_special": True}, R({"sel": {"f|cased": "a*b", "g|cased|startswith": "bb"}}, "sel"),
     R({"sel": {"f|cased": "a*QQ", "g|cased|startswith": "QQQQ"}}, "sel")),
    ("replace string on case-sensitive values", {"type": "replace_string", "regex": "b", "replacement": "QQ"}, R({"sel": {"f|cased": "a*b", "g|cased|startswith": "bb", "h": "b"}}, "not sel"),
     R({"sel": {"f|cased": "a*QQ", "g|cased|startswith": "QQQQ", "h": "QQ"}}, "not sel")),
    ("identity on case-sensitive values: regex matches nothing", {"type": "replace_string", "regex": "QQQ", "replacement": "zz"}, R({"sel": {"f|cased": "AbC", "g|cased|contains": ["x", "Y*z"]}}, "sel"), R({"sel": {"f|cased": "AbC", "g|cased|contains": ["x", "Y*z"]}}, "sel")),
    ("map string on case-sensitive values", {"type": "map_string", "mapping": {"a": ["p", "q"], "B": "r"}}, R({"sel": {"f|cased": "a", "g|cased": "B", "h|cased": "b"}}, "sel"), R({"sel": {"f|cased": ["p", "q"], "g|cased": "r", "h|cased": "b"}}, "sel")),
    ("value placeholders in case-sensitive values", {"type": "value_placeholders"}, R({"sel": {"f|expand|cased": "a%v%b", "g|expand|cased|contains": "%v%"}}, "not sel"), R({"sel": {"f|cased": ["aV1b", "aV2b"], "g|cased|contains": ["V1", "V2"]}}, "not sel")),
    ("wildcard placeholders in case-sensitive values", {"type": "wildcard_placeholders"}, R({"sel": {"f|expand|cased": "a%v%b"}}, "sel"), R({"sel": {"f|cased": "a*b"}}, "sel")),
    ("convert type", {"type": "convert_type", "target_type": "str"}, R({"sel": {"f": 5}}, "sel"), R({"sel": {"f": "5"}}, "sel")),
    ("value placeholders", {"type": "value_placeholders"}, R({"sel": {"f|expand": "a%v%b"}}, "sel"), R({"sel": {"f": ["aV1b", "aV2b"]}}, "sel")),
    ("wildcard placeholders", {"type": "wildcard_placeholders"}, R({"sel": {"f|expand": "a%v%b"}}, "sel"), R({"sel": {"f": "a*b"}}, "sel")),
    ("hashes fields", {"type": "hashes_fields", "valid_hash_algos": ["MD5", "SHA1"], "field_prefix": "File", "drop_algo_prefix": False}, R({"sel": {"Hashes|contains": ["MD5=abc", "SHA1=def"]}}, "sel"), R({"s": [{"FileMD5": "abc"}, {"FileSHA1": "def"}]}, "s")),
    ("nested", {"type": "nest", "items": [{"type": "field_name_mapping", "mapping": {"f": "f2"}}, {"type": "field_name_prefix", "prefix": "p_"}]}, R(BASE), R({"sel": {"p_f2": "a", "p_g|contains": ["x", "y"]}, "kw": ["k1", "k2"]})),
    ("keyword to field", {"type": "field_name_mapping", "mapping": {None: "msg"}}, R({"kw": ["k1", "k*2"]}, "kw"), R({"kw": {"msg": ["*k1*", "*k*2*"]}}, "kw")),
    ("keyword to field, escaped asterisks at the borders", {"type": "field_name_mapping", "mapping": {None: "msg"}}, R({"kw": ["rm /tmp/\\*", "\\*x", "*y", "z*", "a\\\\*"]}, "not kw"),
     R({"kw": {"msg": ["*rm /tmp/\\**", "*\\*x*", "*y*", "*z*", "*a\\\\*"]}}, "not kw")),
    ("hashes fields, explicit algorithm that is not valid is not re-typed by its length", {"type": "hashes_fields", "valid_hash_algos": ["MD5", "SHA256"], "field_prefix": "File", "drop_algo_prefix": False},
     R({"sel": {"Hashes|contains": ["SHA256=" + "a" * 64, "IMPHASH=" + "b" * 32, "c" * 32, "SHA1=" + "d" * 40]}}, "sel"), R({"s": [{"FileSHA256": "a" * 64}, {"FileMD5": "c" * 32}]}, "s")),
    ("hashes fields, pipe separator and wildcards", {"type": "hashes_fields", "valid_hash_algos": ["MD5", "SHA1"], "field_prefix": "h_", "drop_algo_prefix": False},
     R({"sel": {"Hashes|contains": ["*md5|" + "a" * 32 + "*", "SHA1=" + "d" * 40]}}, "sel"), R({"s": [{"h_MD5": "a" * 32}, {"h_SHA1": "d" * 40}]}, "s")),
    # identity instances: a transformation configured not to match anything leaves every query unchanged
    ("identity: empty mapping", {"type": "field_name_mapping", "mapping": {}}, R(BASE, fields=["f"]), R(BASE, fields=["f"])),
    ("identity: regex matches nothing", {"type": "replace_string", "regex": "QQQ", "replacement": "zz"}, R({"sel": {"f": ["a\\\\*", "b\\*c", "d\\\\e"]}}, "sel"), R({"sel": {"f": ["a\\\\*", "b\\*c", "d\\\\e"]}}, "sel")),
    ("identity: condition matches nothing", {"type": "field_name_prefix", "prefix": "p_", "rule_conditions": [{"type": "logsource", "category": "other"}]}, R(BASE), R(BASE)),
    ("identity: unknown placeholder filter", {"type": "wildcard_placeholders", "include": ["other"]}, R({"sel": {"f": "a"}}, "sel"), R({"sel": {"f": "a"}}, "sel")),
    ("identity: map_string without match", {"type": "map_string", "mapping": {"zzz": "y"}}, R(BASE), R(BASE)),
]


@register
class C12Bounded(Bounded):
    id = "C12.bounded.transformations"
    props = ("C12",)

    def run(self, tier, seed):
        from sigma.collection import SigmaCollection
        from sigma.backends.test import TextQueryTestBackend
        from sigma.processing.pipeline import ProcessingPipeline
        from sigma.exceptions import SigmaError
        ev = nontriv = 0
        seen, fails, samples = {}, [], []
        scopes = [("always", {}), ("rule condition holds", {"rule_conditions": [{"type": "logsource", "category": "c"}]})]
        for (name, item, doc, want_doc), (sname, scope) in itertools.product(CASES, scopes):
            if "rule_conditions" in item and scope:
                continue
            ev += 1
            nontriv += 1
            it = {**copy.deepcopy(item), **scope}
            try:
                got = TextQueryTestBackend(ProcessingPipeline.from_dict({"vars": {"v": ["V1", "V2"]}, "transformations": [it]})).convert(SigmaCollection.from_dicts([copy.deepcopy(doc)]))
                want = TextQueryTestBackend().convert(SigmaCollection.from_dicts([copy.deepcopy(want_doc)]))
            except Exception as e:
                kind = "KNOWN-D13 " if name == "identity: regex matches nothing" else ""
                seen[name] = seen.get(name, 0) + 1
                if seen[name] == 1:
                    fails.append({"text": kind + f"{name} ({sname}): {type(e).__name__}: {e}", "input": [name]})
                continue
            ok = len(got) == len(want) and all(equivalent(a, b) for a, b in zip(got, want))
            if not ok:
                seen[name] = seen.get(name, 0) + 1
                if seen[name] == 1:
                    fails.append({"text": ("KNOWN-D13 " if name == "identity: regex matches nothing" else "") + f"{name} ({sname}): pipeline gives {got}, the rewritten document gives {want}", "input": [name]})
            elif len(samples) < 4 and sname == "always":
                samples.append({"transformation": name, "query": got[0]})
        return {"evaluations": ev, "distinct_nontrivial": nontriv, "failures": fails, "failure_counts": seen,
                "bound": f"{len(CASES)} (transformation, rule, hand-rewritten rule) triples x {len(scopes)} condition scopes; queries compared as boolean functions over their atoms",
                "rule": "distinct (transformation, scope)", "samples": samples, "exhaustive": True}
