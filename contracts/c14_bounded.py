"""C14 bounded stand-in: real pipelines, resolver and backend, all permutations / bracketings of small pipeline lists."""
from __future__ import annotations
import copy
import itertools
from pyvc.api import *

RULE = """
title: t
logsource:
  category: c
detection:
  s1:
    f1: v1
  s2:
    f2|expand: "%v%"
  condition: s1 and s2
"""


def make(i, prio=0):
    from sigma.processing.pipeline import ProcessingPipeline, ProcessingItem, QueryPostprocessingItem
    from sigma.processing.transformations import AddFieldnamePrefixTransformation, ValueListPlaceholderTransformation
    from sigma.processing.postprocessing import EmbedQueryTransformation
    from sigma.processing.finalization import Finalizer
    from dataclasses import dataclass

    @dataclass
    class Wrap(Finalizer):
        prefix: str = ""
        separator: str = ","

        def apply(self, queries):
            return [self.prefix + "(" + self.separator.join(queries) + ")"]
    ConcatenateQueriesFinalizer = lambda separator, prefix, suffix: Wrap(prefix=prefix, separator=separator)
    return ProcessingPipeline(
        items=[ProcessingItem(identifier=f"i{i}", transformation=AddFieldnamePrefixTransformation(prefix=f"p{i}_")),
               ProcessingItem(identifier=f"ph{i}", transformation=ValueListPlaceholderTransformation())],
        postprocessing_items=[QueryPostprocessingItem(identifier=f"q{i}", transformation=EmbedQueryTransformation(prefix=f"[{i}", suffix=f"{i}]"))],
        finalizers=[ConcatenateQueriesFinalizer(separator=f"|{i}|", prefix=f"<{i}", suffix=f"{i}>")],
        vars={"v": f"val{i}", f"only{i}": i}, priority=prio, name=f"n{i}")


def view(p):
    return ([x.identifier for x in p.items], [x.identifier for x in p.postprocessing_items], [(f.prefix, f.separator) for f in p.finalizers], dict(p.vars))


def convert(p):
    from sigma.backends.test import TextQueryTestBackend
    from sigma.collection import SigmaCollection
    return TextQueryTestBackend(p).convert(SigmaCollection.from_yaml(RULE))


@register
class C14Bounded(Bounded):
    id = "C14.bounded.compose_resolve"
    props = ("C14",)

    def run(self, tier, seed):
        from sigma.processing.pipeline import ProcessingPipeline
        from sigma.processing.resolver import ProcessingPipelineResolver
        n_max = 3 if tier == "quick" else 4
        ev = nontriv = 0
        fails, samples = [], []

        def fail(t, inp):
            if len(fails) < 20:
                fails.append({"text": t, "input": inp})
        for n in range(1, n_max + 1):
            for prios in itertools.product((0, 1), repeat=n):
                # expected: + in (priority, name) order
                order = sorted(range(n), key=lambda i: (prios[i], f"n{i}"))
                exp = None
                for i in order:
                    exp = make(i, prios[i]) if exp is None else exp + make(i, prios[i])
                vexp = view(exp)
                qexp = convert(exp)
                for perm in itertools.permutations(range(n)):
                    ev += 1
                    res = ProcessingPipelineResolver({f"n{i}": (lambda i=i: make(i, prios[i])) for i in range(n)})
                    got = res.resolve([f"n{i}" for i in perm])
                    if n > 1:
                        nontriv += 1
                    if view(got) != vexp:
                        fail(f"resolve({[f'n{i}' for i in perm]}, priorities {prios}): view {view(got)} != + in (priority, name) order {vexp}", [perm, prios])
                    elif convert(got) != qexp:
                        fail(f"resolve({perm}, {prios}) converts differently from the +-composition", [perm, prios])
                if len(samples) < 3 and n == 3:
                    samples.append({"priorities": prios, "view": [str(x) for x in vexp[:2]], "query": qexp})
        # bracketings / identity / later vars win
        for n in (2, 3, 4):
            idx = list(range(n))
            left = None
            for i in idx:
                left = make(i) if left is None else left + make(i)
            right = None
            for i in reversed(idx):
                right = make(i) if right is None else make(i) + right
            ev += 1
            nontriv += 1
            if view(left) != view(right) or convert(left) != convert(right):
                fail(f"+ is not associative for {n} pipelines: {view(left)} vs {view(right)}", [n])
            if view(left)[3]["v"] != f"val{n - 1}":
                fail(f"variable of the last pipeline does not win: {view(left)[3]}", [n])
        for p, q in ((make(0) + ProcessingPipeline(), make(0)), (ProcessingPipeline() + make(0), make(0)), (make(0) + None, make(0)), (sum([make(0)]), make(0))):
            ev += 1
            if view(p) != view(q):
                fail(f"empty pipeline / None / sum() start is not an identity: {view(p)} vs {view(q)}", [])
        # two different pipelines with identically configured steps: every step is kept
        for mk2 in (lambda: make(0) + make(0), lambda: ProcessingPipelineResolver({"a": lambda: make(0), "b": lambda: make(0)}).resolve(["a", "b"])):
            ev += 1
            nontriv += 1
            v2 = view(mk2())
            if [len(v2[0]), len(v2[1]), len(v2[2])] != [4, 2, 2]:
                fail(f"composition of two pipelines with identically configured steps drops steps: {v2[:3]}", ["equal steps"])
        # backend order and stages: backend pipeline, then user, then output format; postprocessing on every query; finalizers once
        from sigma.backends.test import TextQueryTestBackend
        from sigma.collection import SigmaCollection

        class B(TextQueryTestBackend):
            backend_processing_pipeline = make(7)
            output_format_processing_pipeline = {"default": make(9), "str": make(9)}
        b = B(make(8))
        out = b.convert(SigmaCollection.from_yaml(RULE + "---" + RULE.replace("title: t", "title: u")))
        ev += 1
        nontriv += 1
        ids = [x.identifier for x in b.last_processing_pipeline.items]
        if ids != ["i7", "ph7", "i8", "ph8", "i9", "ph9"]:
            fail(f"backend pipeline order is {ids}, expected backend, user, output format", [])
        exp_q = 'p9_p8_p7_f1="v1" and p9_p8_p7_f2="val9"'
        for k in (7, 8, 9):
            exp_q = f"[{k}{exp_q}{k}]"
        want = f"<9(<8(<7({exp_q}|7|{exp_q})))"
        out = out[0] if isinstance(out, list) and len(out) == 1 else out
        if out != want:
            fail(f"stage order: output {out!r} != {want!r} (transformations, then conversion, postprocessing per query in item order, finalizers once in order)", [])
        samples.append({"backend_output": out})
        # a backend derived from a backend inherits its backend and output-format stages (class attributes), and an instance created
        # with collect_errors / backend options composes the same stages
        class B1(B):
            pass

        class B1b(B1):
            name = "derived twice"
        for Bx, kw in ((B1, {}), (B1b, {}), (B, {"collect_errors": True}), (B1, {"some_option": 1})):
            bx = Bx(make(8), **kw)
            outx = bx.convert(SigmaCollection.from_yaml(RULE + "---" + RULE.replace("title: t", "title: u")))
            ev += 1
            nontriv += 1
            idsx = [x.identifier for x in bx.last_processing_pipeline.items]
            outx = outx[0] if isinstance(outx, list) and len(outx) == 1 else outx
            if idsx != ["i7", "ph7", "i8", "ph8", "i9", "ph9"] or outx != want:
                fail(f"derived backend {Bx.__name__} {kw}: items {idsx}, output {outx!r} (expected the stages of the backend it derives from: {want!r})", [Bx.__name__, sorted(kw)])
        # no user pipeline is the empty user pipeline: the backend and output-format stages run completely (transformations, post-processing
        # of every query, finalizers), whether the backend was created with None, nothing, or an empty pipeline
        exp_q0 = 'p9_p7_f1="v1" and p9_p7_f2="val9"'
        for k in (7, 9):
            exp_q0 = f"[{k}{exp_q0}{k}]"
        want0 = f"<9(<7({exp_q0}|7|{exp_q0}))"
        for label, mkb in (("no argument", lambda: B()), ("None", lambda: B(None)), ("an empty pipeline", lambda: B(ProcessingPipeline())), ("derived, None", lambda: B1b(None))):
            ev += 1
            nontriv += 1
            try:
                out0 = mkb().convert(SigmaCollection.from_yaml(RULE + "---" + RULE.replace("title: t", "title: u")))
                out0 = out0[0] if isinstance(out0, list) and len(out0) == 1 else out0
            except Exception as e:
                out0 = f"{type(e).__name__}: {e}"
            if out0 != want0:
                fail(f"backend with backend and output-format pipelines created with {label} as user pipeline: output {out0!r}, expected {want0!r} (the stages of the two remaining pipelines, nothing skipped)", ["no user pipeline", label])
        # a backend whose default format is not called "default": converting without naming a format runs THAT format's pipeline
        class BF(TextQueryTestBackend):
            default_format = "str"
            backend_processing_pipeline = make(7)
            output_format_processing_pipeline = {"default": make(6), "str": make(9)}
        for label, kw in (("no format named", {}), ("the format named", {"output_format": "str"})):
            ev += 1
            nontriv += 1
            try:
                bf = BF(make(8))
                out_f = bf.convert(SigmaCollection.from_yaml(RULE), **kw)
                ids_f = [x.identifier for x in bf.last_processing_pipeline.items]
            except Exception as e:
                out_f, ids_f = f"{type(e).__name__}: {e}", None
            if ids_f != ["i7", "ph7", "i8", "ph8", "i9", "ph9"] or "<9(<8(<7(" not in str(out_f) or "<6(" in str(out_f):
                fail(f"backend with default_format 'str' ({label}): items {ids_f}, output {str(out_f)[:200]!r} - expected the stages backend, user, output format 'str' (i9 / p9_ / <9)", ["default format", label])
        # items INSIDE a nest transformation keep working after their pipeline was an operand of + (state set inside the nest, read outside)
        nest_item = {"id": "n", "type": "nest", "items": [{"id": "inner", "type": "set_state", "key": "idx", "val": "w"}, {"id": "innermap", "type": "field_name_mapping", "mapping": {"f1": "F1"}}]}
        reader = {"id": "r", "type": "add_condition", "conditions": {"module": "sysmon"}, "rule_conditions": [{"type": "processing_state", "key": "idx", "val": "w"}]}
        single = lambda: ProcessingPipeline.from_dict({"name": "s", "priority": 10, "transformations": [copy.deepcopy(nest_item), copy.deepcopy(reader)]})
        p_n = lambda: ProcessingPipeline.from_dict({"name": "a", "priority": 10, "transformations": [copy.deepcopy(nest_item)]})
        p_r = lambda: ProcessingPipeline.from_dict({"name": "b", "priority": 20, "transformations": [copy.deepcopy(reader)]})
        try:
            want_n = TextQueryTestBackend(single()).convert(SigmaCollection.from_yaml(RULE.replace('|expand: "%v%"', ": x")))
        except Exception as e:
            want_n = [f"{type(e).__name__}: {e}"]
        for label, mk in (("p1 + p2", lambda: p_n() + p_r()), ("(empty + p1) + p2", lambda: (ProcessingPipeline() + p_n()) + p_r()), ("sum", lambda: sum([p_n(), p_r()])),
                          ("resolver", lambda: ProcessingPipelineResolver({"a": p_n(), "b": p_r()}).resolve(["b", "a"])), ("single + empty", lambda: single() + ProcessingPipeline())):
            ev += 1
            nontriv += 1
            try:
                got_n = TextQueryTestBackend(mk()).convert(SigmaCollection.from_yaml(RULE.replace('|expand: "%v%"', ": x")))
            except Exception as e:
                got_n = [f"{type(e).__name__}: {e}"]
            if got_n != want_n or "module" not in str(want_n) or "F1" not in str(want_n):
                fail(f"a nest transformation that sets state and maps a field, then an item that reads the state - composed as {label}: {got_n}, as one pipeline: {want_n}", ["nest after +", label])
        # every emitted query goes through the post-processing items of all three stages - also the query of a correlation rule that is
        # itself referenced by another correlation rule
        plainr = lambda n: {"title": n, "name": n, "logsource": {"category": "c"}, "detection": {"s": {"f1": n}, "condition": "s"}}
        corr_ = lambda n, rules, gen=None: {"title": n, "name": n, "correlation": {"type": "event_count", "rules": rules, "timespan": "5m", "group-by": ["u"], "condition": {"gte": 2}, **({"generate": gen} if gen is not None else {})}}
        for label, docs_ in (("a correlation rule referenced by another", [plainr("a"), corr_("c1", ["a"]), corr_("c2", ["c1"])]), ("generation switched on along the chain", [plainr("a"), corr_("c1", ["a"], True), corr_("c2", ["c1"], True)]),
                             ("two chained on one base", [plainr("a"), plainr("b"), corr_("c1", ["a", "b"]), corr_("c2", ["c1"]), corr_("c3", ["c2"])])):
            ev += 1
            nontriv += 1
            try:
                out_c = B(make(8)).convert(SigmaCollection.from_dicts(copy.deepcopy(docs_)))
                out_c = out_c[0] if isinstance(out_c, list) and len(out_c) == 1 else out_c
                inner = out_c[len("<9(<8(<7("):-3] if isinstance(out_c, str) and out_c.startswith("<9(<8(<7(") else None
                segs = inner.split("|7|") if inner is not None else None
            except Exception as e:
                out_c, segs = f"{type(e).__name__}: {e}", None
            if not segs or any(not (sg.startswith("[9[8[7") and sg.endswith("7]8]9]")) for sg in segs):
                fail(f"{label}: output {str(out_c)[:300]!r} - every emitted query must carry the post-processing of all three stages ([9[8[7 ... 7]8]9])", ["chained correlations", label])
        # finalizers run once on the whole output also when no query was emitted (an empty collection; every rule failed)
        for label, mkcol, kw in (("an empty collection", lambda: SigmaCollection([]), {}),
                                 ("a collection whose only rule fails", lambda: SigmaCollection.from_yaml(RULE.replace("condition: s1 and s2", "condition: s1 and nope")), {"collect_errors": True})):
            ev += 1
            nontriv += 1
            try:
                bx = B(make(8), **kw)
                out_e = bx.convert(mkcol())
                if label.startswith("a collection") and not bx.errors:
                    continue          # (the rule text has another condition spelling: nothing failed, nothing to check)
            except Exception as e:
                out_e = f"{type(e).__name__}: {e}"
            if out_e != ["<9(<8(<7()))"]:
                fail(f"conversion of {label} with three finalizers: output {out_e!r}, expected ['<9(<8(<7()))'] (every finalizer once, in order, on the empty list of queries)", ["empty output", label])
        # a user pipeline that only carries variables is still the user stage: its variables override the backend pipeline's
        class B3(TextQueryTestBackend):
            backend_processing_pipeline = make(7)
        for label, user in (("variables only", lambda: ProcessingPipeline(vars={"v": "userval"})), ("variables and a name / priority", lambda: ProcessingPipeline(vars={"v": "userval"}, name="u", priority=50)),
                            ("resolved from two variable-only pipelines", lambda: ProcessingPipelineResolver({"a": ProcessingPipeline(vars={"v": "x"}, priority=1), "b": ProcessingPipeline(vars={"v": "userval"}, priority=2)}).resolve(["a", "b"]))):
            ev += 1
            nontriv += 1
            try:
                out_v = B3(user()).convert(SigmaCollection.from_yaml(RULE))
            except Exception as e:
                out_v = [f"{type(e).__name__}: {e}"]
            if len(out_v) != 1 or 'f2="userval"' not in str(out_v[0]):
                fail(f"user pipeline with {label} (v = userval) on a backend whose own pipeline sets v = val7 and expands %v%: {out_v}, expected the user's value in the query", ["vars-only user pipeline", label])
        # the stage order backend, user, output format does not depend on the priorities of the three pipelines (priority orders the
        # pipelines given to the resolver, i.e. inside the user stage)
        for pb, pu, pf in itertools.product((-5, 0, 10), repeat=3):
            class B2(TextQueryTestBackend):
                backend_processing_pipeline = make(7, pb)
                output_format_processing_pipeline = {"default": make(9, pf), "str": make(9, pf)}
            b2 = B2(make(8, pu))
            ev += 1
            nontriv += 1
            out2 = b2.convert(SigmaCollection.from_yaml(RULE + "---" + RULE.replace("title: t", "title: u")))
            ids = [x.identifier for x in b2.last_processing_pipeline.items]
            out2 = out2[0] if isinstance(out2, list) and len(out2) == 1 else out2
            if ids != ["i7", "ph7", "i8", "ph8", "i9", "ph9"] or out2 != want:
                fail(f"stage order with priorities backend {pb}, user {pu}, output format {pf}: items {ids}, output {out2!r} (expected backend, user, output format: {want!r})", [pb, pu, pf])
        return {"evaluations": ev, "distinct_nontrivial": nontriv, "failures": fails, "bound": f"1..{n_max} pipelines, priorities in {{0,1}}^n, all permutations of the argument list; bracketings of 2..4; backend stage trace x priorities {-5,0,10}^3; pipelines with identically configured steps",
                "rule": "every (priority vector, permutation) is distinct; non-trivial = more than one pipeline", "samples": samples, "exhaustive": True}
