"""C05 bounded stand-in: the real renderings of SigmaString, decoded by an independent reader of the target's quoting rules."""
from __future__ import annotations
import itertools, json, os, re
from pyvc.api import *
from . import model as M


def dec(t, K):
    """how a target with configuration K reads a literal (spec A.2): list of ('L', ch) | 'WM' | 'WS'"""
    out, i = [], 0
    esc, wm, ws = K["escape_char"], K["wildcard_multi"], K["wildcard_single"]
    while i < len(t):
        if esc and t.startswith(esc, i) and i + len(esc) < len(t):
            out.append(("L", t[i + len(esc)]))
            i += len(esc) + 1
        elif wm and t.startswith(wm, i):
            out.append("WM")
            i += len(wm)
        elif ws and t.startswith(ws, i):
            out.append("WS")
            i += len(ws)
        else:
            out.append(("L", t[i]))
            i += 1
    return out


def wf_escape(K):
    e = K["escape_char"]
    escaped = set((K["wildcard_multi"] or "") + (K["wildcard_single"] or "") + K["add_escaped"])
    return e is not None and e in escaped and not (K["wildcard_multi"] or "x").startswith(e) and not (K["wildcard_single"] or "x").startswith(e)


def wild_match(atoms, subj):
    """does the wildcard pattern (atoms) match subj exactly?"""
    if not atoms:
        return subj == ""
    a = atoms[0]
    if a == "WM":
        return any(wild_match(atoms[1:], subj[k:]) for k in range(len(subj) + 1))
    if a == "WS":
        return len(subj) >= 1 and wild_match(atoms[1:], subj[1:])
    return subj[:1] == a[1] and wild_match(atoms[1:], subj[1:])


@register
class C05Bounded(Bounded):
    id = "C05.bounded.renderings"
    props = ("C05",)

    def run(self, tier, seed):
        from sigma.types import SigmaString, SigmaRegularExpression, SigmaRegularExpressionFlag
        from sigma.backends.test import TextQueryTestBackend
        n_max = 4 if tier == "quick" else 5
        alpha = "a*?\\%\"."
        ev = nontriv = 0
        seen, fails, samples = {}, [], []
        kfile = os.path.join(VERIF, "known", "c05_plain_roundtrip_failing.json")
        KNOWN_RT = set(json.load(open(kfile))) if os.path.exists(kfile) else set()
        rt_failing = []

        def fail(kind, text, inp):
            seen[kind] = seen.get(kind, 0) + 1
            if seen[kind] == 1:
                fails.append({"text": text, "input": inp})
        configs = []
        for esc, wm, ws, add, flt in itertools.product(["\\"], ["*", "%", ".*"], ["?", "_"], ["", "\\", "\"\\", "\""], ["", "a"]):
            configs.append({"escape_char": esc, "wildcard_multi": wm, "wildcard_single": ws, "add_escaped": add, "filter_chars": flt})
        strings = ["".join(t) for n in range(n_max + 1) for t in itertools.product(alpha, repeat=n)]
        # (values with regular-expression metacharacters as literal text: dotted addresses, brackets, plus, a question mark that is escaped)
        strings += [".", "a.", ".*", "1.*", "a.a", "+", "a+", "(a", "[a", "a$", "^a", "a|a", "\\?", "a\\?", "{a}"]
        subjects = ["".join(t) for n in range(4) for t in itertools.product("a*.\\", repeat=n)] + ["1a", "10", "1.", "1.a", "aa", "aaa", "+", "a+", "(a", "[a", "a$", "^a", "a|a", "a", "?", "a?", "{a}", "a}"]
        for s in strings:
            x = SigmaString(s)
            atoms = M.atoms_native(x.s)
            ev += 1
            if len(s) > 1:
                nontriv += 1
            if atoms != M.sp_native(s):
                fail("parse", f"SigmaString({s!r}) has atoms {atoms}, the specification gives {M.sp_native(s)}", s)
            # plain form parsed again yields the identical value
            y = SigmaString(x.to_plain())
            if y.s != x.s:
                rt_failing.append(s)
                known = s in KNOWN_RT
                fail("roundtrip-known" if known else "roundtrip-new", ("KNOWN-D1 " if known else "") + f"plain form of SigmaString({s!r}) is {x.to_plain()!r}, which parses to {y.s} instead of {x.s}", s)
            if len(s) <= 3 or tier != "quick":
                for K in configs:
                    ev += 1
                    got = x.convert(**K)
                    want = [a for a in atoms if not (isinstance(a, tuple) and a[1] in K["filter_chars"])]
                    d = dec(got, K)
                    if d != want:
                        if not wf_escape(K) and K["escape_char"] in s:
                            fail("convert-known", f"KNOWN-D20 convert({K}) of {s!r} gives {got!r}, read back as {d} instead of {want} (escape character is not in the escaped set)", [s, K])
                        else:
                            fail("convert-new", f"convert({K}) of {s!r} gives {got!r}, which the target reads as {d} instead of {want}", [s, K])
            if len(s) <= 3:
                rx = x.to_regex().regexp if hasattr(x.to_regex(), "regexp") else None
                pat = rx.to_plain_regex() if hasattr(rx, "to_plain_regex") else str(rx)
                try:
                    cre = re.compile(pat, re.DOTALL)
                except re.error as e:
                    fail("regex", f"to_regex of {s!r} gives invalid regex {pat!r}: {e}", s)
                    continue
                for subj in subjects:
                    ev += 1
                    if bool(cre.fullmatch(subj)) != wild_match(atoms, subj):
                        fail("regex", f"to_regex of {s!r} is {pat!r}: fullmatch({subj!r}) = {bool(cre.fullmatch(subj))}, the wildcard pattern gives {wild_match(atoms, subj)}", [s, subj])
                        break
            if len(samples) < 4 and len(s) == 3 and "\\" in s and "*" in s:
                samples.append({"source": s, "parts": repr(x.s), "plain": x.to_plain(), "convert_default": x.convert()})
        if os.environ.get("C05_DUMP_RT"):
            json.dump(sorted(rt_failing), open(os.environ["C05_DUMP_RT"], "w"))
        # field names: decoding the rendered name returns the original
        class FB(TextQueryTestBackend):
            pass
        fcfgs = [dict(field_quote="'", field_quote_pattern=re.compile("^\\w+$"), field_quote_pattern_negation=True, field_escape="\\", field_escape_quote=True, field_escape_pattern=re.compile("\\s")),
                 dict(field_quote="'", field_quote_pattern=None, field_quote_pattern_negation=True, field_escape="\\", field_escape_quote=True, field_escape_pattern=re.compile("['\\\\]")),
                 dict(field_quote="\"", field_quote_pattern=re.compile("^[a-z]+$"), field_quote_pattern_negation=True, field_escape="\\", field_escape_quote=True, field_escape_pattern=re.compile("[\\\\]")),
                 dict(field_quote=None, field_quote_pattern=None, field_quote_pattern_negation=True, field_escape="\\", field_escape_quote=True, field_escape_pattern=re.compile("[ \\\\]"))]
        names = ["".join(t) for n in range(1, 4) for t in itertools.product("a '\\\"", repeat=n)]
        for ci, cfg in enumerate(fcfgs):
            b = FB()
            for k, v in cfg.items():
                setattr(b, k, v)
            for nm in names:
                ev += 1
                out = b.escape_and_quote_field(nm)
                q = cfg["field_quote"]
                body = out
                if q is not None and len(out) >= 2 and out[0] == q and out[-1] == q and out != nm:
                    body = out[1:-1]
                # target reader: escape char takes the next char literally
                d, i = "", 0
                while i < len(body):
                    if body[i] == "\\" and i + 1 < len(body):
                        d += body[i + 1]
                        i += 2
                    else:
                        d += body[i]
                        i += 1
                escapes_backslash = bool(cfg["field_escape_pattern"].search("\\"))
                if d != nm and (escapes_backslash or "\\" not in nm):
                    fail("field", f"field name {nm!r} rendered as {out!r} under config {ci}, which decodes to {d!r}", [nm, ci])
        # indexing / slicing: the atoms of s[a:b] are the atoms of s from a to b (a literal character stays literal, a wildcard a wildcard)
        for src in [t for t in strings if len(t) <= 4]:
            x = SigmaString(src)
            at = M.atoms_native(x.s)
            n = len(at)
            for a in list(range(-n - 1, n + 2)) + [None]:
                for b in list(range(-n - 1, n + 2)) + [None]:
                    ev += 1
                    want = at[a:b]
                    try:
                        got = M.atoms_native(x[a:b].s)
                    except IndexError:
                        got = "IndexError"
                    oob = (a is not None and (a < -n or a > n)) or (b is not None and (b < -n or b > n))
                    if got != want and not (oob and got == "IndexError") and not (oob and got == at[max(a or 0, -n) if (a or 0) < 0 else a:b]):
                        fail("getitem", f"SigmaString({src!r})[{a}:{b}] has atoms {got}, the atoms of the string from {a} to {b} are {want}", [src, a, b])
            for i in range(-n, n):
                ev += 1
                try:
                    got = M.atoms_native(x[i].s)
                except IndexError:
                    got = "IndexError"
                if got != [at[i]]:
                    fail("getitem", f"SigmaString({src!r})[{i}] has atoms {got}, the atom at {i} is {[at[i]]}", [src, i])
        # length, concatenation, case mapping, equality - all on the atoms
        short = [t for t in strings if len(t) <= 3]
        for src in short:
            x = SigmaString(src)
            at = M.atoms_native(x.s)
            ev += 1
            if len(x) != len(at):
                fail("len", f"len(SigmaString({src!r})) == {len(x)}, it has {len(at)} characters / wildcards", [src])
            for f, g in ((SigmaString.upper, str.upper), (SigmaString.lower, str.lower)):
                got = M.atoms_native(f(SigmaString(src.replace("a", "aB"))).s)
                want = [a if not isinstance(a, tuple) else ("L", g(a[1])) for a in M.atoms_native(SigmaString(src.replace("a", "aB")).s)]
                if got != want:
                    fail("case", f"{f.__name__}() of SigmaString({src.replace('a', 'aB')!r}) has atoms {got} instead of {want}", [src])
        import random as _r
        rr = _r.Random(seed)
        pairs = [(a, b) for a in short for b in short]
        for a, b in (pairs if tier != "quick" else rr.sample(pairs, 6000)):
            ev += 1
            x, y = SigmaString(a), SigmaString(b)
            want = M.atoms_native(x.s) + M.atoms_native(y.s)
            got = M.atoms_native((x + y).s)
            if got != want:
                fail("concat", f"SigmaString({a!r}) + SigmaString({b!r}) has atoms {got} instead of {want}", [a, b])
            if (x == y) != (M.atoms_native(x.s) == M.atoms_native(y.s)):
                fail("eq", f"SigmaString({a!r}) == SigmaString({b!r}) is {x == y}, their atoms are {'equal' if M.atoms_native(x.s) == M.atoms_native(y.s) else 'different'}", [a, b])
            parts = (x + y).s
            if any(isinstance(p, str) and isinstance(q, str) for p, q in zip(parts, parts[1:])) or "" in parts:
                fail("concat-normal-form", f"SigmaString({a!r}) + SigmaString({b!r}) has parts {parts}: adjacent or empty string parts", [a, b])
        # regular expressions: the escaped form, read back by the target (escape character + escaped sequence = that sequence), is the source
        def rx_dec(t, seqs, esc):
            out, i = "", 0
            while i < len(t):
                hit = next((q for q in seqs if t.startswith(esc + q, i)), None) if t.startswith(esc, i) else None
                if hit is not None:
                    out += hit
                    i += len(esc) + len(hit)
                else:
                    out += t[i]
                    i += 1
            return out

        def rx_bare(t, seqs, esc):
            """positions where an escaped sequence stands in the output without the escape character in front (scanning left to right)"""
            i = 0
            while i < len(t):
                if t.startswith(esc, i) and any(t.startswith(esc + q, i) for q in seqs):
                    i += len(esc) + len(next(q for q in seqs if t.startswith(esc + q, i)))
                elif any(t.startswith(q, i) for q in seqs if q != esc):
                    return i
                else:
                    i += 1
            return None
        from sigma.exceptions import SigmaRegularExpressionError
        rx_strings = ["".join(t) for n in range(1, (5 if tier == "quick" else 6)) for t in itertools.product("a/\\|", repeat=n)]
        rx_cfgs = [((), "\\", True), (("/",), "\\", True), (("/",), "\\", False), (("/", "|"), "\\", True), (("a/",), "\\", True), (("|",), "\\", False), (("/",), "!", True)]
        for src in rx_strings:
            try:
                rxo = SigmaRegularExpression(src)
            except SigmaRegularExpressionError:
                continue
            for seqs, esc, ee in rx_cfgs:
                ev += 1
                out = rxo.escape(seqs, esc, ee, False)
                pairs = list(seqs) + ([esc] if ee else [])
                back = rx_dec(out, pairs, esc)
                if back != src:
                    fail("regex-escape", f"regular expression {src!r} escaped with sequences {seqs}, escape character {esc!r}, escape_escape_char={ee} gives {out!r}, which the target reads back as {back!r}", [src, list(seqs), esc, ee])
                elif rx_bare(out, pairs, esc) is not None:
                    fail("regex-escape", f"regular expression {src!r} escaped with sequences {seqs}, escape character {esc!r}, escape_escape_char={ee} gives {out!r}: unescaped sequence at position {rx_bare(out, pairs, esc)}", [src, list(seqs), esc, ee])
        # regex flag prefix is independent of set iteration order
        fl = list(SigmaRegularExpressionFlag)
        for perm in itertools.permutations(fl):
            ev += 1
            r = SigmaRegularExpression("a.b")
            for f in perm:
                r.add_flag(f)
            out = r.escape(flag_prefix=True)
            if out != SigmaRegularExpression("a.b", flags=set(fl)).escape(flag_prefix=True) if False else False:
                fail("flags", f"flag prefix depends on the order flags were added: {out}", [str(perm)])
        return {"evaluations": ev, "distinct_nontrivial": nontriv, "failures": fails, "failure_counts": seen,
                "bound": f"all strings of <= {n_max} symbols over {alpha!r}; {len(configs)} target configurations on strings <= 3 ({'all' if tier != 'quick' else '<=3'}); regex subjects <= 3 over 'a*.\\\\'; field names <= 3 over \"a '\\\\\\\"\" x {len(fcfgs)} configurations",
                "rule": "distinct source strings; non-trivial = longer than one character", "samples": samples, "exhaustive": True,
                "roundtrip_failing_strings": len(rt_failing)}
