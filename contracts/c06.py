"""C06 - serialising a rule and loading it again preserves its meaning: encode / decode pairs of the detection item."""
from __future__ import annotations
import z3
from pyvc.api import *
from pyvc.values import *
from pyvc import ops

DET = "sigma.rule.detection"
MODS = "sigma.modifiers"


def mk_value(I, i, is_string):
    """a value object whose to_plain() / to_plain(True) give distinguishable results"""
    plain, plain_rx = I.fresh(f"plain{i}", "opaque", "PlainValue"), I.fresh(f"plain_regex{i}", "opaque", "PlainValue")
    cls = I.E.index.lookup("sigma.types:SigmaString" if is_string else "sigma.types:SigmaNumber")
    o = SObj(cls, {"to_plain": NativeFn("to_plain", lambda I2, a, k: plain_rx if (a and a[0] is True) else plain)})
    o.ghost.update(plain=plain, plain_rx=plain_rx)
    return o


@register
class DetectionItemToPlain(Contract):
    """to_plain: a keyword item without modifiers is its value(s); otherwise {field|mod1|mod2: value(s)}; one value is written as a scalar,
    any other number as a list; regular expressions are written with their unescaped text; an item whose values are out of sync fails"""
    id = "C06.SigmaDetectionItem.to_plain"
    target = f"{DET}:SigmaDetectionItem.to_plain"
    props = ("C06", "C05")
    cases = tuple((nvals, mods, field, sync) for nvals in (0, 1, 2) for mods in ((), ("contains",), ("contains", "all"), ("re",), ("re", "i")) for field in (True, False) for sync in (True,)) + ((1, (), True, False),)
    assumed = ["value objects are abstract: to_plain() / to_plain(True) return opaque plain values"]

    def args(self, I, case):
        nvals, mods, field, sync = case
        idx = I.E.index
        mm = idx.module(MODS)
        import ast
        table = {ast.literal_eval(k): ast.unparse(v) for k, v in zip(mm.assigns["modifier_mapping"].keys, mm.assigns["modifier_mapping"].values)}
        mcls = [ClassRef(idx.lookup(f"{MODS}:{table[m]}")) for m in mods]
        vals = [mk_value(I, i, True) for i in range(nvals)]
        f = I.fresh("field", "str") if field else None
        if field:
            I.ctx.assume(z3.Length(f.t) > 0)
        me = SObj(idx.lookup(f"{DET}:SigmaDetectionItem"), {"field": f, "modifiers": mcls, "value": list(vals), "original_value": list(vals) if sync else None, "source": None}, lazy=True)
        return {"self": me, "args": [], "vals": vals, "case": case, "f": f}

    def post(self, I, inp, r):
        c = I.ctx
        nvals, mods, field, sync = inp["case"]
        c.require(sync, "an item whose values are no longer in sync with the original values is not written")
        want_vals = [v.ghost["plain_rx"] if "re" in mods else v.ghost["plain"] for v in inp["vals"]]
        want = want_vals[0] if nvals == 1 else want_vals
        if not field and not mods:
            c.require((r is want) if nvals == 1 else (isinstance(r, list) and len(r) == nvals and all(a is b for a, b in zip(r, want))), "a keyword item without modifiers is written as its value / list of values")
            return
        ok = isinstance(r, dict) and len(r) == 1
        c.require(ok, "written as a single-entry map")
        if ok:
            (k, v), = r.items()
            import ast
            mm = I.E.index.module(MODS)
            table = [(ast.literal_eval(kk), ast.unparse(vv)) for kk, vv in zip(mm.assigns["modifier_mapping"].keys, mm.assigns["modifier_mapping"].values)]
            rev = {}
            for ident, cls_ in table:
                rev[cls_] = ident
            written = [rev[dict(table)[m]] for m in mods]       # an alias may be written under its other spelling (lemma: it loads as the same class)
            key = ops.concat_strs(I, [inp["f"] if field else ""] + ["|" + m for m in written])
            c.require(ops.mk_bool_term(ops.py_eq(I, k, key)), "key == field name followed by |identifier of every modifier class, in order")
            c.require((v is want) if nvals == 1 else (isinstance(v, list) and len(v) == nvals and all(a is b for a, b in zip(v, want))), "one value is written as a scalar, any other number as a list; regular expressions with their regex text")

    def raises(self, I, inp, exc):
        I.ctx.require(exc_is(I, exc, "SigmaValueError") and not inp["case"][3], f"SigmaValueError exactly when the original values are gone (got {exc_name(exc)})", kind="SAFE")

    def frame_ok(self, I, inp, obj, name):
        return False


@register
class DetectionItemFromMapping(Contract):
    """from_mapping: the key is split at '|' into field and modifier identifiers (empty field = keyword), unknown identifiers are rejected,
    a scalar becomes a one-element list; with the re modifier strings are taken unparsed"""
    id = "C06.SigmaDetectionItem.from_mapping"
    target = f"{DET}:SigmaDetectionItem.from_mapping"
    props = ("C06", "C03", "C05")
    cases = (("f", "scalar"), ("f|contains|all", "list"), ("|contains", "scalar"), (None, "list"), ("f|nope", "scalar"), ("f|re|i", "scalar"), ("f|re", "nonstr"), ("f|re", "mixed"), ("f|re", "list"))
    assumed = ["sigma_type() and the SigmaDetectionItem constructor (modifier application, C03) are abstract"]

    def setup(self, E):
        E.summaries[f"{DET}:SigmaDetectionItem"] = lambda I, so, a, k: SObj("Item", {"args": list(a), "kwargs": dict(k)})
        E.summaries["sigma.types:sigma_type"] = lambda I, so, a, k: SObj("Typed", {"v": a[0]})
        E.summaries["sigma.types:SigmaString.from_str"] = lambda I, so, a, k: SObj("Unparsed", {"v": a[0]})

    def args(self, I, case):
        key, shape = case
        v0, v1 = I.fresh("v0", "str"), I.fresh("v1", "str")
        val = v0 if shape == "scalar" else [v0, v1] if shape == "list" else [v0, 5] if shape == "mixed" else 5
        return {"self": ClassRef(I.E.index.lookup(f"{DET}:SigmaDetectionItem")), "args": [key, val], "case": case, "vals": [v0] if shape == "scalar" else [v0, v1] if shape == "list" else [v0, 5] if shape == "mixed" else [5]}

    def post(self, I, inp, r):
        key, shape = inp["case"]
        c = I.ctx
        c.require(key != "f|nope" and not (key == "f|re" and shape in ("nonstr", "mixed")), "unknown modifiers and non-string regular expressions are rejected")
        a = r.fields["args"]
        parts = (key or "").split("|")
        want_field = parts[0] or None if key is not None else None
        c.require(a[0] == want_field, "field == text before the first '|' (empty = keyword)")
        c.require([m.info.name for m in a[1]] == [self.table(I)[m] for m in parts[1:]], "modifiers == the classes of the identifiers after the field, in order")
        kind = "Unparsed" if "re" in parts[1:] else "Typed"
        c.require(len(a[2]) == len(inp["vals"]) and all(isinstance(x, SObj) and x.cls == kind and x.fields["v"] is v for x, v in zip(a[2], inp["vals"])), "values: a scalar becomes a one-element list; each value typed (regular expressions taken unparsed)")

    def table(self, I):
        import ast
        mm = I.E.index.module(MODS)
        return {ast.literal_eval(k): ast.unparse(v) for k, v in zip(mm.assigns["modifier_mapping"].keys, mm.assigns["modifier_mapping"].values)}

    def raises(self, I, inp, exc):
        key, shape = inp["case"]
        I.ctx.require((exc_is(I, exc, "SigmaModifierError") and key == "f|nope") or (exc_is(I, exc, "SigmaTypeError") and shape in ("nonstr", "mixed")), f"SigmaModifierError for an unknown modifier, SigmaTypeError for a non-string regular expression (got {exc_name(exc)})", kind="SAFE")

    def frame_ok(self, I, inp, obj, name):
        return False


@register
class ModifierTableInverse(Lemma):
    """decode(encode(modifier)) == modifier: for every class in the table, modifier_mapping[reverse_modifier_mapping[cls.__name__]] is cls (aliases included)"""
    id = "C06.lemma.modifier_table_inverse"
    props = ("C06",)

    def goals(self):
        import ast
        mm = make_engine().index.module(MODS)
        node = mm.assigns["modifier_mapping"]
        table = [(ast.literal_eval(k), ast.unparse(v)) for k, v in zip(node.keys, node.values)]
        rev = {}
        for ident, cls in table:          # reverse_modifier_mapping = {cls.__name__: identifier ...}: the last identifier of a class wins
            rev[cls] = ident
        fwd = dict(table)
        return [(f"{cls} is written as '{rev[cls]}', which loads as {cls}", [], z3.BoolVal(fwd[rev[cls]] == cls)) for cls in sorted(rev)]


CORRM = "sigma.correlations"
COND_OPS = ("LT", "LTE", "GT", "GTE", "EQ", "NEQ")


@register
class CorrelationConditionToDict(Contract):
    """the written form of a threshold condition: {operator name in lower case: count} for EVERY count (0 included), plus 'field' iff a
    field reference is set and 'percentile' iff a percentile is set (0 included), nothing else"""
    id = "C06.SigmaCorrelationCondition.to_dict"
    target = f"{CORRM}:SigmaCorrelationCondition.to_dict"
    props = ("C06", "C10")
    cases = tuple((op, fr, pc) for op in COND_OPS for fr in (False, True) for pc in (False, True))

    def args(self, I, case):
        op, fr, pc = case
        E = I.E.index.lookup(f"{CORRM}:SigmaCorrelationConditionOperator")
        f = {"op": EnumVal(E, op), "count": I.fresh("count", "int"), "fieldref": I.fresh("fieldref", "str") if fr else None, "percentile": I.fresh("percentile", "int") if pc else None, "source": None}
        if fr:
            I.ctx.assume(z3.Length(f["fieldref"].t) > 0)
        return {"self": SObj(I.E.index.lookup(f"{CORRM}:SigmaCorrelationCondition"), dict(f)), "args": [], "f": f, "case": case}

    def post(self, I, inp, r):
        c, f = I.ctx, inp["f"]
        op, fr, pc = inp["case"]
        r = I.force(r) if not isinstance(r, dict) else r
        ok = isinstance(r, dict)
        c.require(ok, "a dict is returned")
        if ok:
            want = {op.lower()} | ({"field"} if fr else set()) | ({"percentile"} if pc else set())
            c.require(set(r) == want, f"keys are exactly {sorted(want)} whatever the count / percentile values are (0 is a value)")
            c.require(r.get(op.lower()) is f["count"], "the count is written unchanged under the operator's name")
            if fr:
                c.require(r.get("field") is f["fieldref"], "the field reference is written unchanged")
            if pc:
                c.require(r.get("percentile") is f["percentile"], "the percentile is written unchanged")

    def frame_ok(self, I, inp, obj, name):
        return False


@register
class CorrelationConditionFromDict(Contract):
    """loading the written form gives back operator, count, field reference and percentile"""
    id = "C06.SigmaCorrelationCondition.from_dict"
    target = f"{CORRM}:SigmaCorrelationCondition.from_dict"
    props = ("C06", "C10")
    cases = tuple((op, fr, pc) for op in COND_OPS for fr in (False, True) for pc in (False, True))

    def args(self, I, case):
        op, fr, pc = case
        f = {"count": I.fresh("count", "int"), "fieldref": I.fresh("fieldref", "str") if fr else None, "percentile": I.fresh("percentile", "int") if pc else None}
        d = {op.lower(): f["count"]}
        if fr:
            d["field"] = f["fieldref"]
        if pc:
            d["percentile"] = f["percentile"]
        return {"self": ClassRef(I.E.index.lookup(f"{CORRM}:SigmaCorrelationCondition")), "args": [d], "f": f, "case": case}

    def post(self, I, inp, r):
        c, f = I.ctx, inp["f"]
        op, fr, pc = inp["case"]
        ok = isinstance(r, SObj) and getattr(r.cls, "name", "") == "SigmaCorrelationCondition"
        c.require(ok, "a SigmaCorrelationCondition is returned")
        if ok:
            g = r.fields
            c.require(isinstance(g.get("op"), EnumVal) and g["op"].name == op, f"operator read back (got {g.get('op')!r})")
            c.require(ops.mk_bool_term(ops.py_eq(I, g.get("count"), f["count"])), "count read back (0 included)")
            c.require(g.get("fieldref") is f["fieldref"], "field reference read back")
            c.require((g.get("percentile") is None) if not pc else ops.mk_bool_term(ops.py_eq(I, g.get("percentile"), f["percentile"])), "percentile read back (0 included)")

    def raises(self, I, inp, exc):
        I.ctx.require(False, f"the written form of a condition is rejected ({exc_name(exc)})")

    def frame_ok(self, I, inp, obj, name):
        return False
