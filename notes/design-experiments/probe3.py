from sigma.types import *
from sigma.rule import SigmaRule, SigmaDetectionItem
from sigma.collection import SigmaCollection
from sigma.correlations import SigmaCorrelationRule
from sigma.filters import SigmaFilter
from sigma.backends.test import TextQueryTestBackend
from sigma.processing.pipeline import ProcessingPipeline
from sigma.exceptions import SigmaError
import base64, copy, traceback

def rule(det, title="t", **kw):
    return {"title":title,"logsource":{"category":"c"},"detection":det, **kw}
def conv(docs, pipeline=None, **kw):
    return TextQueryTestBackend(pipeline, **kw).convert(SigmaCollection.from_dicts(docs))
def tryit(name, f):
    try: print(name, "->", f())
    except Exception as e: print(name, "EXC", type(e).__name__, isinstance(e, SigmaError), str(e)[:120])

di = SigmaDetectionItem.from_mapping("f|base64", "a\\*b")
print("C04 literal asterisk:", di.value, base64.b64encode(b"a*b"), base64.b64encode(b"a\\*b"))
tryit("C06 empty list", lambda: SigmaRule.from_dict(rule({"s":{"f":[]},"condition":"s"})).to_dict()["detection"])
tryit("C06 roundtrip bs-wildcard", lambda: SigmaRule.from_dict(SigmaRule.from_dict(rule({"s":{"f":"a\\\\*"},"condition":"s"})).to_dict()).detection.detections["s"].detection_items[0].value)

print("C07:")
tryit(" id int strict", lambda: SigmaRule.from_dict(rule({"s":{"f":1},"condition":"s"}, id=123)))
tryit(" id int collect", lambda: SigmaRule.from_dict(rule({"s":{"f":1},"condition":"s"}, id=123), collect_errors=True).errors)
tryit(" key int collect", lambda: SigmaRule.from_dict(rule({"s":{1:1},"condition":"s"}), collect_errors=True).errors)
tryit(" doc is list", lambda: SigmaRule.from_dict([1,2], collect_errors=True).errors)
tryit(" corr no cond collect", lambda: SigmaCorrelationRule.from_dict({"title":"c","correlation":{"type":"event_count","rules":["a"],"timespan":"1m"}}, collect_errors=True).errors)
tryit(" corr cond bad collect", lambda: SigmaCorrelationRule.from_dict({"title":"c","correlation":{"type":"event_count","rules":["a"],"timespan":"1m","condition":{"gte":[1]}}}, collect_errors=True).errors)
tryit(" filter no logsource collect", lambda: SigmaFilter.from_dict({"title":"f","filter":{"rules":"any","s":{"f":1},"condition":"s"}}, collect_errors=True).errors)
tryit(" condition int", lambda: SigmaRule.from_dict(rule({"s":{"f":1},"condition":5}), collect_errors=True).errors)
tryit(" tags str", lambda: SigmaRule.from_dict(rule({"s":{"f":1},"condition":"s"}, tags="a.b"), collect_errors=True).errors)
tryit(" related bad", lambda: SigmaRule.from_dict(rule({"s":{"f":1},"condition":"s"}, related=[1]), collect_errors=True).errors)
tryit(" logsource list", lambda: SigmaRule.from_dict({"title":"t","logsource":[1],"detection":{"s":{"f":1},"condition":"s"}}, collect_errors=True).errors)
tryit(" detection list", lambda: SigmaRule.from_dict({"title":"t","logsource":{"category":"c"},"detection":[1]}, collect_errors=True).errors)
tryit(" value dict", lambda: SigmaRule.from_dict(rule({"s":{"f":{"a":1}},"condition":"s"}), collect_errors=True).errors)

print("C08:")
docs=[rule({"s":{"f":"a"},"condition":"s"},title="ok1"), rule({"s":{"f|fieldref":"g","h|lt":1},"condition":"s"},title="x"), rule({"s":{"f":"b"},"condition":"s"},title="ok2")]
class B2(TextQueryTestBackend):
    compare_op_expression=None
b=B2(collect_errors=True)
tryit(" unsupported type w/ collect", lambda: (b.convert(SigmaCollection.from_dicts(docs)), b.errors))

print("C11:")
flt={"title":"flt","logsource":{"category":"c"},"filter":{"rules":"any","2sel":{"g":"x"},"condition":"not 2sel"}}
tryit(" digit name", lambda: conv([rule({"s":{"f":"a"},"condition":"s"}), flt]))
flt2={"title":"flt","logsource":{"category":"c"},"filter":{"rules":"any","_sel":{"g":"x"},"condition":"not _sel"}}
tryit(" underscore name", lambda: conv([rule({"s":{"f":"a"},"condition":"s"}), flt2]))
flt3={"title":"flt","logsource":{"category":"c"},"filter":{"rules":"any","sel":{"g":"x"},"condition":"not sel"}}
tryit(" rule pattern _*", lambda: conv([rule({"s":{"f":"a"},"_t":{"f":"b"},"condition":"s or 1 of _*"}), flt3]))
tryit(" ok", lambda: conv([rule({"s":{"f":"a"},"condition":"s"}), flt3]))

print("C12 noop replace:")
pl=ProcessingPipeline.from_yaml("""
transformations:
  - type: replace_string
    regex: "ZZZZ"
    replacement: "Y"
""")
tryit(" with", lambda: conv([rule({"s":{"f":"a\\\\*"},"condition":"s"})], pl))
tryit(" without", lambda: conv([rule({"s":{"f":"a\\\\*"},"condition":"s"})]))

print("C13 empty di conditions with or / not:")
for extra in ["detection_item_cond_op: or", "detection_item_cond_not: true", "field_name_cond_op: or", "field_name_cond_not: true", "rule_cond_op: or", "rule_cond_not: true"]:
    pl=ProcessingPipeline.from_yaml(f"""
transformations:
  - type: field_name_suffix
    suffix: "_x"
    {extra}
""")
    tryit(" "+extra, lambda: conv([rule({"s":{"f":"a"},"condition":"s"})], pl))

print("C15 A/B init:")
from sigma.processing.transformations import SetStateTransformation
from sigma.processing.pipeline import ProcessingItem
class SB(TextQueryTestBackend):
    backend_processing_pipeline = ProcessingPipeline([ProcessingItem(SetStateTransformation("index","IDX"))])
A=SB(); A.init_processing_pipeline("state"); 
r=lambda: SigmaRule.from_dict(rule({"s":{"f":"a"},"condition":"s"}))
print(" A alone:", A.convert_rule(r(),"state"))
B=SB(); B.init_processing_pipeline("state")
print(" A after B init:", A.convert_rule(r(),"state"))
print("C14 p+p:")
p=ProcessingPipeline.from_yaml("transformations:\n  - type: field_name_suffix\n    suffix: _x\n")
tryit(" p+p", lambda: (p+p).items)
