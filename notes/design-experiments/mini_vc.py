"""Throw-away prototype: generate VCs for TextQueryBackend.compare_precedence directly from /repo's AST.
Path-enumerating symbolic executor for a tiny subset: assignments, if/elif/else, return, try/except ValueError,
isinstance (incl. tuples), dict-literal .get, tuple .index, attribute reads, and/or/not, comparisons."""
import ast, sys, z3, itertools, time

SRC = '/repo/sigma/conversion/base.py'
mutate = sys.argv[1] if len(sys.argv) > 1 else None
tree = ast.parse(open(SRC).read())
cls = next(n for n in tree.body if isinstance(n, ast.ClassDef) and n.name == 'TextQueryBackend')
fn = next(n for n in cls.body if isinstance(n, ast.FunctionDef) and n.name == 'compare_precedence')
if mutate:                     # in-memory mutant, never written to /repo
    class M(ast.NodeTransformer):
        def visit_Compare(self, node):
            if mutate == 'lte_to_gte' and isinstance(node.ops[0], ast.LtE): node.ops = [ast.GtE()]
            return node
        def visit_If(self, node):
            self.generic_visit(node)
            if mutate == 'drop_expansion_case' and 'SigmaExpansion' in ast.dump(node.test):
                return node.orelse[0] if len(node.orelse)==1 and isinstance(node.orelse[0], ast.If) else node.orelse
            return node
    fn = M().visit(fn); ast.fix_missing_locations(fn)

# ---- class universe (tags) and subclass table, as it would be read from the sources
CLASSES = ['ConditionNOT','ConditionAND','ConditionOR','CorrelationConditionNOT','CorrelationConditionAND','CorrelationConditionOR',
           'ConditionFieldEqualsValueExpression','ConditionValueExpression','SigmaRuleReference','NoneType',
           'SigmaExpansion','SigmaString']
Tag, tags = z3.EnumSort('Tag', CLASSES); TAG = dict(zip(CLASSES, tags))
SUB = {'ConditionItem': ['ConditionNOT','ConditionAND','ConditionOR'], 'CorrelationConditionItem': ['CorrelationConditionNOT','CorrelationConditionAND','CorrelationConditionOR']}
def is_a(tagterm, name):
    names = SUB.get(name, [name]); return z3.Or(*[tagterm == TAG[n] for n in names])

class Obj:            # symbolic object: class tag + fields
    def __init__(s, tag, fields): s.tag, s.fields = tag, fields
class ClassVal:       # a class used as a value (symbolic tag)
    def __init__(s, tag): s.tag = tag
class TupleVal:
    def __init__(s, items): s.items = items
class DictVal:
    def __init__(s, pairs): s.pairs = pairs
class Raise(Exception):
    def __init__(s, exc): s.exc = exc

# ---- symbolic inputs
pN, pA, pO = [z3.Const(n, Tag) for n in ('prec0','prec1','prec2')]
selfo = Obj(None, {'parenthesize': z3.Bool('parenthesize'), 'precedence': TupleVal([ClassVal(pN), ClassVal(pA), ClassVal(pO)])})
outer = Obj(z3.Const('outer_cls', Tag), {})
inner = Obj(z3.Const('inner_cls', Tag), {'value': Obj(z3.Const('inner_value_cls', Tag), {})})
pre = z3.And(z3.Distinct(pN,pA,pO), *[z3.Or(x==TAG['ConditionNOT'], x==TAG['ConditionAND'], x==TAG['ConditionOR']) for x in (pN,pA,pO)],
             z3.Or(is_a(outer.tag,'ConditionItem'), is_a(outer.tag,'CorrelationConditionItem')),
             z3.Not(z3.Or(inner.tag==TAG['SigmaExpansion'], inner.tag==TAG['SigmaString'])))

results = []   # (path condition, outcome) ; outcome = ('return', term) | ('raise', name)
def truth(v):
    if isinstance(v, bool): return z3.BoolVal(v)
    return v
def ev(e, env, pc):
    """evaluate expression -> list of (value, pc') ; may raise Raise"""
    if isinstance(e, ast.Constant): return e.value
    if isinstance(e, ast.Name):
        if e.id in env: return env[e.id]
        if e.id in TAG or e.id in SUB: return ('classname', e.id)
        raise NotImplementedError(e.id)
    if isinstance(e, ast.Attribute):
        b = ev(e.value, env, pc)
        if e.attr == '__class__': return ClassVal(b.tag)
        return b.fields[e.attr]
    if isinstance(e, ast.Tuple): return TupleVal([ev(x, env, pc) for x in e.elts])
    if isinstance(e, ast.Dict): return DictVal([(ev(k, env, pc), ev(v, env, pc)) for k,v in zip(e.keys, e.values)])
    if isinstance(e, ast.UnaryOp) and isinstance(e.op, ast.Not): return z3.Not(truth(ev(e.operand, env, pc)))
    if isinstance(e, ast.UnaryOp) and isinstance(e.op, ast.USub): return -ev(e.operand, env, pc)
    if isinstance(e, ast.BoolOp):
        vals = [truth(ev(x, env, pc)) for x in e.values]          # operands here are pure & total -> no short-circuit hazard
        return z3.And(*vals) if isinstance(e.op, ast.And) else z3.Or(*vals)
    if isinstance(e, ast.Compare):
        l = ev(e.left, env, pc); r = ev(e.comparators[0], env, pc); op = e.ops[0]
        return {ast.LtE: lambda: l <= r, ast.Lt: lambda: l < r, ast.GtE: lambda: l >= r, ast.Gt: lambda: l > r, ast.Eq: lambda: l == r}[type(op)]()
    if isinstance(e, ast.Call):
        f = e.func
        if isinstance(f, ast.Name) and f.id == 'isinstance':
            o = ev(e.args[0], env, pc); c = ev(e.args[1], env, pc)
            names = [x[1] for x in c.items] if isinstance(c, TupleVal) else [c[1]]
            return z3.Or(*[is_a(o.tag, n) for n in names])
        if isinstance(f, ast.Attribute) and f.attr == 'get':
            d = ev(f.value, env, pc); k = ev(e.args[0], env, pc); dflt = ev(e.args[1], env, pc)
            t = dflt.tag
            for kk, vv in reversed(d.pairs): t = z3.If(k.tag == TAG[kk[1]], TAG[vv[1]], t)
            return ClassVal(t)
        if isinstance(f, ast.Attribute) and f.attr == 'index':
            tup = ev(f.value, env, pc); x = ev(e.args[0], env, pc)
            xt = TAG[x[1]] if isinstance(x, tuple) else x.tag
            found = z3.Or(*[it.tag == xt for it in tup.items])
            return ('maybe_raise', z3.Not(found), 'ValueError',
                    z3.If(tup.items[0].tag == xt, 0, z3.If(tup.items[1].tag == xt, 1, 2)))
    raise NotImplementedError(ast.dump(e)[:80])

def feasible(pc):
    s = z3.Solver(); s.add(pre, *pc); return s.check() == z3.sat
def run(stmts, env, pc, handlers):
    """execute statement list; returns list of (env, pc) continuing normally"""
    states = [(env, pc)]
    for st in stmts:
        nxt = []
        for env, pc in states:
            if not feasible(pc): continue
            if isinstance(st, ast.Expr): nxt.append((env, pc)); continue                 # docstring
            if isinstance(st, (ast.Assign, ast.AnnAssign)):
                if isinstance(st, ast.AnnAssign) and st.value is None: nxt.append((env, pc)); continue
                tgt = (st.targets[0] if isinstance(st, ast.Assign) else st.target).id
                v = ev(st.value, env, pc)
                if isinstance(v, tuple) and v[0] == 'maybe_raise':
                    _, cond, exc, val = v
                    if exc in handlers: nxt += handlers[exc](env, pc + [cond])
                    else: results.append((pc + [cond], ('raise', exc)))
                    nxt.append(({**env, tgt: val}, pc + [z3.Not(cond)]))
                else: nxt.append(({**env, tgt: v}, pc))
                continue
            if isinstance(st, ast.If):
                c = truth(ev(st.test, env, pc))
                nxt += run(st.body, env, pc + [c], handlers)
                nxt += run(st.orelse, env, pc + [z3.Not(c)], handlers) if st.orelse else [(env, pc + [z3.Not(c)])]
                continue
            if isinstance(st, ast.Return):
                v = ev(st.value, env, pc)
                if isinstance(v, tuple) and v[0] == 'maybe_raise': raise NotImplementedError
                # comparison may contain a maybe_raise on the right: handle 'a <= t.index(x)'
                results.append((pc, ('return', truth(v)))); continue
            if isinstance(st, ast.Try):
                h = dict(handlers)
                for hd in st.handlers:
                    h[hd.type.id] = (lambda body: (lambda env2, pc2: run(body, env2, pc2, handlers)))(hd.body)
                nxt += run(st.body, env, pc, h); continue
            raise NotImplementedError(type(st).__name__)
        states = nxt
    return states

# 'return idx_inner <= self.precedence.index(outer_class)': hoist the call so the possible ValueError is visible
last = fn.body[-1]
if isinstance(last, ast.Return) and isinstance(last.value, ast.Compare) and isinstance(last.value.comparators[0], ast.Call):
    tmp = ast.Assign(targets=[ast.Name(id='_idx_outer', ctx=ast.Store())], value=last.value.comparators[0])
    last.value.comparators[0] = ast.Name(id='_idx_outer', ctx=ast.Load()); fn.body.insert(-1, tmp); ast.fix_missing_locations(fn)

t0 = time.time()
run(fn.body, {'self': selfo, 'outer': outer, 'inner': inner}, [], {})
print(f'paths: {len(results)}  (from real AST, {fn.end_lineno - fn.lineno + 1} source lines, mutate={mutate})')

# ---- contract (one-directional, DESIGN.md C01): result => safe(outer, inner, K) ; raises nothing
def idx(tagterm): return z3.If(pN == tagterm, 0, z3.If(pA == tagterm, 1, z3.If(pO == tagterm, 2, -1)))
def norm(t): return z3.If(t == TAG['CorrelationConditionNOT'], TAG['ConditionNOT'], z3.If(t == TAG['CorrelationConditionAND'], TAG['ConditionAND'], z3.If(t == TAG['CorrelationConditionOR'], TAG['ConditionOR'], t)))
is_leaf = z3.Or(inner.tag == TAG['ConditionFieldEqualsValueExpression'], inner.tag == TAG['ConditionValueExpression'])
eff = z3.If(z3.And(is_leaf, inner.fields['value'].tag == TAG['SigmaExpansion']), TAG['ConditionOR'], norm(inner.tag))
is_op = z3.Or(*[norm(inner.tag) == TAG[n] for n in ('ConditionNOT','ConditionAND','ConditionOR')])
safe = z3.And(z3.Not(z3.And(selfo.fields['parenthesize'], is_op)), idx(eff) <= idx(norm(outer.tag)))
n_ok = n_bad = 0
for pc, (kind, val) in results:
    s = z3.Solver(); s.add(pre, *pc)
    if s.check() != z3.sat: continue                       # infeasible path
    s.add(z3.Not(z3.Implies(val, safe)) if kind == 'return' else z3.BoolVal(True))
    r = s.check()
    if r == z3.unsat: n_ok += 1
    else:
        n_bad += 1; m = s.model()
        print('  REFUTED on a', kind, 'path:', {d.name(): m[d] for d in m.decls()})
print(f'obligations proved: {n_ok}, refuted: {n_bad}, wall {time.time()-t0:.2f}s')
