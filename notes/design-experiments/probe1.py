from sigma.types import *
from sigma.rule import SigmaRule, SigmaDetectionItem
from sigma.collection import SigmaCollection
from sigma.backends.test import TextQueryTestBackend
import traceback

print("C05 plain roundtrip:")
for src in ["\\\\*", "a\\\\*b", "\\*", "\\\\", "a\\", "\\\\?", "\\\\\\*"]:
    v = SigmaString(src); p = v.to_plain(); v2 = SigmaString(p)
    print(repr(src), v.s, repr(p), v2.s, v.s == v2.s)

print("C02 keyword prefix:")
for cond, dets in [("notepad", ["notepad"]), ("android or x", ["android","x"]), ("x and organic", ["x","organic"]), ("1 of them", ["a"]), ("all_sel", ["all_sel"]), ("1 of ofx*", ["ofx1"]), ("anyx", ["anyx"])]:
    try:
        r = SigmaRule.from_dict({"title":"t","logsource":{"category":"c"},"detection":{**{d:{"f":d} for d in dets},"condition":cond}})
        print(cond, "->", r.detection.parsed_condition[0].parsed)
    except Exception as e:
        print(cond, "EXC", type(e).__name__, e)

print("C04 non-ascii base64offset:")
for payload in ["ä", "äb", "abc", "ab", "a"]:
    di = SigmaDetectionItem.from_mapping("f|base64offset|contains", payload)
    print(payload, di.value)
