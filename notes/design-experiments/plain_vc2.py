import z3, time, sys
S = z3.StringSort()
Atom = z3.Datatype('Atom'); Atom.declare('Lit', ('ch', S)); Atom.declare('WM'); Atom.declare('WS'); Atom = Atom.create()
AS = z3.SeqSort(Atom)
BS = z3.StringVal("\\"); ST = z3.StringVal("*"); Q = z3.StringVal("?")
unit = z3.Unit
def hd(s): return z3.SubString(s,0,1)
def tl(s): return z3.SubString(s,1,z3.Length(s)-1)
sp = z3.RecFunction('sp', z3.BoolSort(), S, AS)
lits = z3.RecFunction('lits', S, AS)
escp = z3.RecFunction('escp', S, S)
escf = z3.RecFunction('escf', S, S, S)   # candidate fix: escf(p, nxt): also doubles backslash when next output char is \,*,? ; nxt = first char following the part ("" if none)
e = z3.Bool('e'); s_ = z3.String('s'); n_ = z3.String('n')
c = hd(s_); rest = tl(s_); special = z3.Or(c==ST, c==Q, c==BS)
z3.RecAddDefinition(sp, [e, s_], z3.If(z3.Length(s_)==0,
        z3.If(e, unit(Atom.Lit(BS)), z3.Empty(AS)),
        z3.If(e,
            z3.If(special, z3.Concat(unit(Atom.Lit(c)), sp(False, rest)),
                           z3.Concat(unit(Atom.Lit(BS)), unit(Atom.Lit(c)), sp(False, rest))),
            z3.If(c==BS, sp(True, rest),
              z3.If(c==ST, z3.Concat(unit(Atom.WM), sp(False, rest)),
                z3.If(c==Q, z3.Concat(unit(Atom.WS), sp(False, rest)),
                   z3.Concat(unit(Atom.Lit(c)), sp(False, rest))))))))
z3.RecAddDefinition(escp, [s_], z3.If(z3.Length(s_)==0, z3.StringVal(""),
        z3.Concat(z3.If(z3.Or(c==ST,c==Q), z3.Concat(BS,c), c), escp(rest))))
z3.RecAddDefinition(lits, [s_], z3.If(z3.Length(s_)==0, z3.Empty(AS), z3.Concat(unit(Atom.Lit(c)), lits(rest))))
nxt = z3.If(z3.Length(rest)>0, hd(rest), n_)
z3.RecAddDefinition(escf, [s_, n_], z3.If(z3.Length(s_)==0, z3.StringVal(""),
        z3.Concat(z3.If(z3.Or(c==ST,c==Q), z3.Concat(BS,c),
                   z3.If(z3.And(c==BS, z3.Or(nxt==BS, nxt==ST, nxt==Q)), z3.Concat(BS,BS), c)), escf(rest, n_))))
p = z3.String('p'); z = z3.String('z')
def run(name, goal, hyps, timeout=30000):
    s = z3.Solver(); s.set('timeout', timeout)
    for h in hyps: s.add(h)
    s.add(z3.Not(goal))
    t0=time.time(); r = s.check(); print(name, r, round(time.time()-t0,2))
    if r == z3.sat:
        m = s.model(); print('   cex p=', m.eval(p), ' z=', m.eval(z))
    return r
# current code
def L(p, z): return sp(False, z3.Concat(escp(p), z)) == z3.Concat(lits(p), sp(False, z))
run('current, inductive step', L(p,z), [z3.Length(p)>0, L(tl(p), z)])
run('current, base', L(p,z), [z3.Length(p)==0])
# candidate fix: part p followed by z whose first char is what follows in output
def Lf(p, z): return sp(False, z3.Concat(escf(p, hd(z)), z)) == z3.Concat(lits(p), sp(False, z))
run('fix, base', Lf(p,z), [z3.Length(p)==0])
run('fix, inductive step', Lf(p,z), [z3.Length(p)>0, Lf(tl(p), z)])

# dump the hard one for cvc5
s = z3.Solver()
s.add(z3.Length(p)>0, Lf(tl(p), z), z3.Not(Lf(p,z)))
open('fix_step.smt2','w').write("(set-logic ALL)\n"+s.to_smt2())
# case-split variant: split on c and whether tail empty
cases = {
 'c plain': z3.And(hd(p)!=BS, hd(p)!=ST, hd(p)!=Q),
 'c star': hd(p)==ST, 'c q': hd(p)==Q,
 'c bs, tail empty': z3.And(hd(p)==BS, z3.Length(p)==1),
 'c bs, tail nonempty, nxt special': z3.And(hd(p)==BS, z3.Length(p)>1, z3.Or(hd(tl(p))==BS, hd(tl(p))==ST, hd(tl(p))==Q)),
 'c bs, tail nonempty, nxt plain': z3.And(hd(p)==BS, z3.Length(p)>1, z3.Not(z3.Or(hd(tl(p))==BS, hd(tl(p))==ST, hd(tl(p))==Q))),
}
for k,v in cases.items():
    run('fix step / '+k, Lf(p,z), [z3.Length(p)>0, Lf(tl(p), z), v], timeout=20000)
