# Brute force: for which escaping configs K does decode_K(convert_K(v)) == filter(atoms(v)) hold for all short v?
import itertools, collections
from sigma.types import SigmaString, SpecialChars
def atoms(v, filt):
    out=[]
    for p in v.s:
        if isinstance(p,str): out.extend(c for c in p if c not in filt)
        else: out.append(p)
    return out
def decode(text, esc, wm, ws):
    out=[]; i=0
    while i < len(text):
        if esc is not None and text.startswith(esc, i) and i+len(esc) < len(text):
            out.append(text[i+len(esc)]); i += len(esc)+1
        elif wm and text.startswith(wm, i): out.append(SpecialChars.WILDCARD_MULTI); i += len(wm)
        elif ws and text.startswith(ws, i): out.append(SpecialChars.WILDCARD_SINGLE); i += len(ws)
        else: out.append(text[i]); i+=1
    return out
alpha = ["a","\\","*","?",'"',".","%"]
vals = [SigmaString("".join(t)) for n in range(0,5) for t in itertools.product(alpha, repeat=n)]
res = collections.OrderedDict()
for esc in ["\\", "%"]:
  for wm in ["*", "%", ".*"]:
    for ws in ["?", "."]:
      for add in ["", "\\", '"', '"\\', "%", "%\\"]:
        for filt in ["", "a"]:
          bad=None
          for v in vals:
            t = v.convert(esc, wm, ws, add, filt)
            if decode(t, esc, wm, ws) != atoms(v, filt): bad=(v.s, t); break
          escaped=set(wm+ws+add)
          cond = (esc in escaped)
          res[(esc,wm,ws,add,filt)] = (bad is None, cond, bad)
agree = sum(1 for k,(ok,cond,bad) in res.items() if ok==cond); print("configs", len(res), "agree with 'esc in escaped set':", agree)
for k,(ok,cond,bad) in res.items():
    if ok!=cond: print(k, ok, cond, bad)
