import sys; from tree2_defs import *
name = sys.argv[1]; cmp = sys.argv[2] if len(sys.argv)>2 else '<='
rdoc, rdocs = build(cmp)
L1 = lambda c: dsem(rdoc(c)) == sem(c)
L1or = lambda oi, cs: dsemor(rdocs(oi, cs)) == semor(cs)
L1and = lambda oi, cs: dsemand(rdocs(oi, cs)) == semand(cs)
L2 = lambda c: wp(rdoc(c)); L2s = lambda oi, cs: wps(oi, rdocs(oi, cs))
H = lambda c: z3.Or(D.is_DNone(rdoc(c)), didx(rdoc(c)) == cidx(c))
cases = {
 'L1.leaf': ([C.is_Leaf(c)], L1(c)), 'L1.nil': ([C.is_Nil(c)], L1(c)),
 'L1.not': ([C.is_Not(c), L1(C.narg(c))], L1(c)),
 'L1.or': ([C.is_Or(c), L1or(pO, C.oargs(c))], L1(c)),
 'L1.and': ([C.is_And(c), L1and(pA, C.aargs(c))], L1(c)),
 'L1or.cons': ([CL.is_ccons(cs), L1(CL.chd(cs)), L1or(oi, CL.ctl(cs))], L1or(oi, cs)),
 'L1and.cons': ([CL.is_ccons(cs), L1(CL.chd(cs)), L1and(oi, CL.ctl(cs))], L1and(oi, cs)),
 'H.all': ([], H(c)),
 'L2.not': ([C.is_Not(c), L2(C.narg(c)), H(C.narg(c))], L2(c)),
 'L2.or': ([C.is_Or(c), L2s(pO, C.oargs(c))], L2(c)),
 'L2.and': ([C.is_And(c), L2s(pA, C.aargs(c))], L2(c)),
 'L2s.cons': ([CL.is_ccons(cs), L2(CL.chd(cs)), H(CL.chd(cs)), L2s(oi, CL.ctl(cs)), z3.Or(oi==pO, oi==pA)], L2s(oi, cs)),
}
h,g = cases[name]; prove(name+' ['+cmp+']', h, g)
