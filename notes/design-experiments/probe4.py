from sigma.types import *
import itertools
# __getitem__ vs python slicing over atoms
def atoms(v):
    out=[]
    for p in v.s:
        if isinstance(p,str): out.extend(p)
        else: out.append(p)
    return out
alpha=["a","b","*","?"]
bad=0; tot=0; samples=[]
for n in range(0,6):
    for t in itertools.product(alpha, repeat=n):
        v=SigmaString("".join(t)); A=atoms(v); L=len(A)
        idxs=[slice(a,b) for a in [None]+list(range(-L-1,L+2)) for b in [None]+list(range(-L-1,L+2))]+list(range(-L-1,L+2))
        for idx in idxs:
            tot+=1
            try: exp=A[idx] if isinstance(idx,slice) else [A[idx]]
            except IndexError: exp="IndexError"
            try: got=atoms(v[idx])
            except IndexError: got="IndexError"
            if exp!=got:
                bad+=1
                if len(samples)<12: samples.append(("".join(t), idx, exp, got))
print(tot,bad); [print(s) for s in samples]
print("in-range only:")
bad=0; tot=0; samples=[]
for n in range(0,6):
    for t in itertools.product(alpha, repeat=n):
        v=SigmaString("".join(t)); A=atoms(v); L=len(A)
        for a in range(0,L+1):
            for b in list(range(a,L+1))+[None]:
                for (aa,bb) in {(a,b),(a-L if a>0 else a, b), (a, (b-L if (b is not None and b<L) else b))}:
                    if bb is not None and bb<0 and L+bb<aa%max(L,1): pass
                    idx=slice(aa,bb); tot+=1
                    exp=A[idx]
                    try: got=atoms(v[idx])
                    except IndexError: got="IndexError"
                    if exp!=got:
                        bad+=1
                        if len(samples)<10: samples.append(("".join(t), idx, exp, got))
print(tot,bad); [print(s) for s in samples]
