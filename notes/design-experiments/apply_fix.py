import sys, re, pathlib
fix = sys.argv[1]; root = pathlib.Path('/tmp/scratch_repo/sigma')
def sub(path, old, new, count=1):
    p = root/path; s = p.read_text(); assert s.count(old) >= 1, (path, old); p.write_text(s.replace(old, new, count if count else -1))
if fix == 'D4':
    sub('conditions.py', '("not", 1, opAssoc.RIGHT, ConditionNOT.from_parsed),', '(Keyword("not", ident_chars=alphanums + "_-*"), 1, opAssoc.RIGHT, ConditionNOT.from_parsed),')
    sub('conditions.py', '("and", 2, opAssoc.LEFT, ConditionAND.from_parsed),', '(Keyword("and", ident_chars=alphanums + "_-*"), 2, opAssoc.LEFT, ConditionAND.from_parsed),')
    sub('conditions.py', '("or", 2, opAssoc.LEFT, ConditionOR.from_parsed),', '(Keyword("or", ident_chars=alphanums + "_-*"), 2, opAssoc.LEFT, ConditionOR.from_parsed),')
elif fix == 'D3':
    sub('types.py', 'return str(self).encode()', 'return self.to_plain(regex=True).encode()')
elif fix == 'D2':
    sub('modifiers.py', 'self.start_offsets[i] : self.end_offsets[(len(val) + i) % 3]', 'self.start_offsets[i] : self.end_offsets[(len(bytes(val)) + i) % 3]')
elif fix == 'D5':
    sub('conversion/base.py', 'if not all([isinstance(arg.value, (SigmaString, SigmaNumber)) for arg in args]):', 'if not all(\n            [\n                isinstance(arg.value, (SigmaString, SigmaNumber))\n                and not isinstance(arg.value, SigmaCasedString)\n                for arg in args\n            ]\n        ):')
elif fix == 'D6':
    sub('conversion/base.py', 'return self.cidr_expression.format(\n                field=cond.field,', 'return self.cidr_expression.format(\n                field=self.escape_and_quote_field(cond.field),')
elif fix == 'D11':
    sub('filters.py', 'r"[a-zA-Z*][a-zA-Z0-9*_-]*"', 'r"[a-zA-Z0-9_*][a-zA-Z0-9*_-]*"')
elif fix == 'D14':
    sub('processing/pipeline.py', '            detection_item_cond_result = not detection_item_cond_result\n', '            detection_item_cond_result = not detection_item_cond_result\n        detection_item_cond_result = not self.detection_item_conditions or detection_item_cond_result\n')
    s = (root/'processing/pipeline.py').read_text()
    # field name gates: three places; add shortcut after each negation
    s = s.replace('            field_name_cond_result = not field_name_cond_result\n', '            field_name_cond_result = not field_name_cond_result\n        field_name_cond_result = not self.field_name_conditions or field_name_cond_result\n', 2)
    s = s.replace('                field_name_cond_result = not field_name_cond_result\n', '                field_name_cond_result = not field_name_cond_result\n            field_name_cond_result = not self.field_name_conditions or field_name_cond_result\n', 1)
    (root/'processing/pipeline.py').write_text(s)
elif fix == 'D17':
    sub('types.py', '        regexp_str = str(self.regexp)\n        pos = (', '        for part in self.regexp.s:\n            if isinstance(part, Placeholder):\n                raise SigmaPlaceholderError(\n                    f"Attempt to convert unhandled placeholder \'{part.name}\' into query."\n                )\n        regexp_str = str(self.regexp)\n        pos = (')
elif fix == 'D19':
    sub('rule/detection.py', '        if len(self.original_value) > 1:\n            value:', '        if len(self.original_value) != 1:\n            value:')
elif fix == 'D1':
    old = '''                else:
                    rs += s.replace("*", "\\\\*").replace("?", "\\\\?")
            elif isinstance(s, SpecialChars):'''
    new = '''                else:
                    nxt = self.s[i + 1] if i + 1 < len(self.s) else None
                    follow = special_char_mapping[nxt] if isinstance(nxt, SpecialChars) else ""
                    for j, c in enumerate(s):
                        n = s[j + 1] if j + 1 < len(s) else follow
                        if c in char_mapping or (c == escape_char and (n in char_mapping or n == escape_char)):
                            rs += escape_char
                        rs += c
            elif isinstance(s, SpecialChars):'''
    sub('types.py', old, new)
    sub('types.py', '        rs = ""\n        for s in self.s:\n            if isinstance(s, str):\n                if regex:', '        rs = ""\n        for i, s in enumerate(self.s):\n            if isinstance(s, str):\n                if regex:')
