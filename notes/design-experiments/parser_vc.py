# Feasibility: preservation VC of SigmaString.__init__ loop vs. tail-recursive spec sp(esc, rest)
import z3, time
S = z3.StringSort()
Atom = z3.Datatype('Atom'); Atom.declare('Lit', ('ch', S)); Atom.declare('WM'); Atom.declare('WS'); Atom = Atom.create()
AS = z3.SeqSort(Atom)
sp = z3.Function('sp', z3.BoolSort(), S, AS)        # spec: atoms of rest given escape state
lits = z3.Function('lits', S, AS)                    # Lit per char
BS = z3.StringVal("\\"); ST = z3.StringVal("*"); Q = z3.StringVal("?")
def unit(a): return z3.Unit(a)
def sp_def(esc, s):
    c = z3.SubString(s,0,1); rest = z3.SubString(s,1,z3.Length(s)-1)
    special = z3.Or(c==ST, c==Q, c==BS)
    return z3.If(z3.Length(s)==0,
        z3.If(esc, unit(Atom.Lit(BS)), z3.Empty(AS)),
        z3.If(esc,
            z3.If(special, z3.Concat(unit(Atom.Lit(c)), sp(False, rest)),
                           z3.Concat(unit(Atom.Lit(BS)), unit(Atom.Lit(c)), sp(False, rest))),
            z3.If(c==BS, sp(True, rest),
              z3.If(c==ST, z3.Concat(unit(Atom.WM), sp(False, rest)),
                z3.If(c==Q, z3.Concat(unit(Atom.WS), sp(False, rest)),
                   z3.Concat(unit(Atom.Lit(c)), sp(False, rest)))))))
# loop state: R (atoms of r), ACC (string = join(acc)), escaped, rest (unconsumed suffix), total = sp(False, s)
R = z3.Const('R', AS); ACC = z3.String('ACC'); esc = z3.Bool('esc'); rest = z3.String('rest'); TOT = z3.Const('TOT', AS)
c = z3.SubString(rest,0,1); rest2 = z3.SubString(rest,1,z3.Length(rest)-1)
def inv(R, ACC, esc, rest): return z3.Concat(R, lits(ACC), sp(esc, rest)) == TOT
# body transcribed from real code
special = z3.Or(c==ST, c==Q)   # c in char_mapping
# case split per path
paths = []
# path1: escaped and (special or c==BS): acc.append(c); escaped=False
paths.append((z3.And(esc, z3.Or(special, c==BS)), R, z3.Concat(ACC, c), False))
# path2: escaped and not...: acc.append('\\'); acc.append(c)
paths.append((z3.And(esc, z3.Not(z3.Or(special, c==BS))), R, z3.Concat(ACC, BS, c), False))
# path3: not escaped, c == BS (escape=True): escaped = True
paths.append((z3.And(z3.Not(esc), c==BS), R, ACC, True))
# path4: not escaped, special: flush acc, append special, acc=[]
paths.append((z3.And(z3.Not(esc), c!=BS, c==ST), z3.Concat(R, lits(ACC), unit(Atom.WM)), z3.StringVal(""), False))
paths.append((z3.And(z3.Not(esc), c!=BS, c==Q), z3.Concat(R, lits(ACC), unit(Atom.WS)), z3.StringVal(""), False))
# path5: plain
paths.append((z3.And(z3.Not(esc), c!=BS, z3.Not(special)), R, z3.Concat(ACC, c), False))
x = z3.String('x'); y = z3.String('y')
for k,(cond, R2, ACC2, esc2) in enumerate(paths):
    s = z3.Solver(); s.set('timeout', 20000)
    s.add(z3.Length(rest) > 0, inv(R, ACC, esc, rest), cond)
    # definitional unfolding (fuel 1) for sp(esc, rest)
    s.add(sp(esc, rest) == sp_def(esc, rest))
    # lits axioms instances needed: lits(ACC ++ c) = lits(ACC) ++ [Lit c] for |c|=1 ; lits("")=[]
    s.add(lits(z3.Concat(ACC, c)) == z3.Concat(lits(ACC), unit(Atom.Lit(c))))
    s.add(lits(z3.Concat(ACC, BS, c)) == z3.Concat(lits(ACC), unit(Atom.Lit(BS)), unit(Atom.Lit(c))))
    s.add(lits(z3.StringVal("")) == z3.Empty(AS))
    s.add(z3.Not(inv(R2, ACC2, z3.BoolVal(esc2) if isinstance(esc2,bool) else esc2, rest2)))
    t=time.time(); r = s.check(); print('path',k,r, round(time.time()-t,2))
