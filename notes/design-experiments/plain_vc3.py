# Same lemma, but strings as algebraic lists of chars (Int code points), atoms list as algebraic list.
import z3, time
Ch = z3.IntSort()
L = z3.Datatype('Str'); L.declare('nil'); L.declare('cons', ('hd', Ch), ('tl', L)); L = L.create()
Atom = z3.Datatype('Atom'); Atom.declare('Lit', ('ch', Ch)); Atom.declare('WM'); Atom.declare('WS'); Atom = Atom.create()
AL = z3.Datatype('AL'); AL.declare('anil'); AL.declare('acons', ('ahd', Atom), ('atl', AL)); AL = AL.create()
BS, ST, Q = z3.IntVal(92), z3.IntVal(42), z3.IntVal(63)
app = z3.RecFunction('app', L, L, L); aapp = z3.RecFunction('aapp', AL, AL, AL)
sp = z3.RecFunction('sp', z3.BoolSort(), L, AL)
lits = z3.RecFunction('lits', L, AL)
escp = z3.RecFunction('escp', L, L)
escf = z3.RecFunction('escf', L, Ch, L)       # n = -1 if nothing follows
x = z3.Const('x', L); y = z3.Const('y', L); a = z3.Const('a', AL); b = z3.Const('b', AL); e = z3.Bool('e'); n = z3.Int('n')
z3.RecAddDefinition(app, [x,y], z3.If(L.is_nil(x), y, L.cons(L.hd(x), app(L.tl(x), y))))
z3.RecAddDefinition(aapp, [a,b], z3.If(AL.is_anil(a), b, AL.acons(AL.ahd(a), aapp(AL.atl(a), b))))
c = L.hd(x); r = L.tl(x); special = z3.Or(c==ST, c==Q, c==BS)
A1 = lambda at, rest: AL.acons(at, rest)
z3.RecAddDefinition(sp, [e,x], z3.If(L.is_nil(x),
     z3.If(e, A1(Atom.Lit(BS), AL.anil), AL.anil),
     z3.If(e, z3.If(special, A1(Atom.Lit(c), sp(False, r)), A1(Atom.Lit(BS), A1(Atom.Lit(c), sp(False, r)))),
        z3.If(c==BS, sp(True, r), z3.If(c==ST, A1(Atom.WM, sp(False,r)), z3.If(c==Q, A1(Atom.WS, sp(False,r)), A1(Atom.Lit(c), sp(False,r))))))))
z3.RecAddDefinition(lits, [x], z3.If(L.is_nil(x), AL.anil, A1(Atom.Lit(c), lits(r))))
z3.RecAddDefinition(escp, [x], z3.If(L.is_nil(x), L.nil, z3.If(z3.Or(c==ST,c==Q), L.cons(BS, L.cons(c, escp(r))), L.cons(c, escp(r)))))
nxt = z3.If(L.is_nil(r), n, L.hd(r))
z3.RecAddDefinition(escf, [x,n], z3.If(L.is_nil(x), L.nil,
     z3.If(z3.Or(c==ST,c==Q), L.cons(BS, L.cons(c, escf(r,n))),
       z3.If(z3.And(c==BS, z3.Or(nxt==BS,nxt==ST,nxt==Q)), L.cons(BS, L.cons(BS, escf(r,n))), L.cons(c, escf(r,n))))))
p = z3.Const('p', L); z = z3.Const('z', L)
def first(z): return z3.If(L.is_nil(z), z3.IntVal(-1), L.hd(z))
def run(name, goal, hyps, timeout=30000):
    s = z3.Solver(); s.set('timeout', timeout)
    for h in hyps: s.add(h)
    s.add(z3.Not(goal)); t0=time.time(); r = s.check(); print(name, r, round(time.time()-t0,2))
    if r == z3.sat: m = s.model(); print('   cex p=', m.eval(p), ' z=', m.eval(z))
def Lc(p,z): return sp(False, app(escp(p), z)) == aapp(lits(p), sp(False, z))
def Lf(p,z): return sp(False, app(escf(p, first(z)), z)) == aapp(lits(p), sp(False, z))
run('current base', Lc(p,z), [L.is_nil(p)])
run('current step', Lc(p,z), [L.is_cons(p), Lc(L.tl(p), z)])
run('fix base', Lf(p,z), [L.is_nil(p)])
run('fix step', Lf(p,z), [L.is_cons(p), Lf(L.tl(p), z)])
