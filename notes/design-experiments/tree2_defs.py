import z3, time
I = z3.IntSort(); B = z3.BoolSort()
C = z3.Datatype('C'); CL = z3.Datatype('CL')
C.declare('Leaf', ('id', I)); C.declare('Nil'); C.declare('Not', ('narg', C)); C.declare('Or', ('oargs', CL)); C.declare('And', ('aargs', CL))
CL.declare('cnil'); CL.declare('ccons', ('chd', C), ('ctl', CL))
C, CL = z3.CreateDatatypes(C, CL)
D = z3.Datatype('D'); DL = z3.Datatype('DL')
D.declare('DAtom', ('did', I)); D.declare('DNone'); D.declare('DNeg', ('dn', D)); D.declare('DGroup', ('dg', D)); D.declare('DBin', ('op', I), ('dargs', DL))
DL.declare('dnil'); DL.declare('dcons', ('dhd', D), ('dtl', DL))
D, DL = z3.CreateDatatypes(D, DL)
env = z3.Array('env', I, B)
def nonrec(name, params, body):
    f = z3.RecFunction(name, *[p.sort() for p in params], body.sort()); z3.RecAddDefinition(f, params, body); return f
a, b = z3.Ints('a b'); d = z3.Const('d', D); ds = z3.Const('ds', DL); fl = z3.Bool('fl'); o = z3.Int('o')
onot = nonrec('onot', [a], z3.If(a==2, 2, 1-a))
oor  = nonrec('oor', [a,b], z3.If(a==2, b, z3.If(b==2, a, z3.If(z3.Or(a==1,b==1),1,0))))
oand = nonrec('oand', [a,b], z3.If(a==2, b, z3.If(b==2, a, z3.If(z3.And(a==1,b==1),1,0))))
grp  = nonrec('grp', [d], z3.If(D.is_DNone(d), d, D.DGroup(d)))
mk   = nonrec('mk', [o, ds], z3.If(DL.is_dnil(ds), D.DNone, D.DBin(o, ds)))
negdoc = nonrec('negdoc', [fl, d], z3.If(D.is_DNone(d), D.DNone, z3.If(fl, D.DNeg(D.DGroup(d)), D.DNeg(d))))
consdoc = nonrec('consdoc', [fl, d, ds], z3.If(D.is_DNone(d), ds, z3.If(fl, DL.dcons(d, ds), DL.dcons(D.DGroup(d), ds))))
sem = z3.RecFunction('sem', C, I); semor = z3.RecFunction('semor', CL, I); semand = z3.RecFunction('semand', CL, I)
c = z3.Const('c', C); cs = z3.Const('cs', CL)
z3.RecAddDefinition(sem, [c], z3.If(C.is_Leaf(c), z3.If(env[C.id(c)],1,0), z3.If(C.is_Nil(c), 2, z3.If(C.is_Not(c), onot(sem(C.narg(c))), z3.If(C.is_Or(c), semor(C.oargs(c)), semand(C.aargs(c)))))))
z3.RecAddDefinition(semor, [cs], z3.If(CL.is_cnil(cs), 2, oor(sem(CL.chd(cs)), semor(CL.ctl(cs)))))
z3.RecAddDefinition(semand, [cs], z3.If(CL.is_cnil(cs), 2, oand(sem(CL.chd(cs)), semand(CL.ctl(cs)))))
pN,pA,pO = z3.Ints('pN pA pO'); parenthesize = z3.Bool('parenthesize')
perm = z3.And(z3.Distinct(pN,pA,pO), *[z3.And(x>=0,x<=2) for x in (pN,pA,pO)])
def cidx(c): return z3.If(C.is_Not(c), pN, z3.If(C.is_And(c), pA, z3.If(C.is_Or(c), pO, -1)))
def is_op(c): return z3.Or(C.is_Not(c), C.is_And(c), C.is_Or(c))
CMP = '<='
def compare_prec(outer_idx, inner):
    rel = {'<=': cidx(inner) <= outer_idx, '<': cidx(inner) < outer_idx, '>=': cidx(inner) >= outer_idx}[CMP]
    return z3.And(z3.Not(z3.And(parenthesize, is_op(inner))), rel)
def build(cmp='<='):
    global CMP, rdoc, rdocs; CMP = cmp
    rdoc = z3.RecFunction('rdoc', C, D); rdocs = z3.RecFunction('rdocs', I, CL, DL); oi = z3.Int('oi')
    z3.RecAddDefinition(rdoc, [c], z3.If(C.is_Leaf(c), D.DAtom(C.id(c)), z3.If(C.is_Nil(c), D.DNone,
          z3.If(C.is_Not(c), negdoc(is_op(C.narg(c)), rdoc(C.narg(c))),
          z3.If(C.is_Or(c), mk(2, rdocs(pO, C.oargs(c))), mk(1, rdocs(pA, C.aargs(c))))))))
    z3.RecAddDefinition(rdocs, [oi, cs], z3.If(CL.is_cnil(cs), DL.dnil, consdoc(compare_prec(oi, CL.chd(cs)), rdoc(CL.chd(cs)), rdocs(oi, CL.ctl(cs)))))
    return rdoc, rdocs
dsem = z3.RecFunction('dsem', D, I); dsemor = z3.RecFunction('dsemor', DL, I); dsemand = z3.RecFunction('dsemand', DL, I)
z3.RecAddDefinition(dsem, [d], z3.If(D.is_DAtom(d), z3.If(env[D.did(d)],1,0), z3.If(D.is_DNone(d), 2, z3.If(D.is_DNeg(d), onot(dsem(D.dn(d))), z3.If(D.is_DGroup(d), dsem(D.dg(d)), z3.If(D.op(d)==2, dsemor(D.dargs(d)), dsemand(D.dargs(d))))))))
z3.RecAddDefinition(dsemor, [ds], z3.If(DL.is_dnil(ds), 2, oor(dsem(DL.dhd(ds)), dsemor(DL.dtl(ds)))))
z3.RecAddDefinition(dsemand, [ds], z3.If(DL.is_dnil(ds), 2, oand(dsem(DL.dhd(ds)), dsemand(DL.dtl(ds)))))
def didx(d): return z3.If(D.is_DNeg(d), pN, z3.If(D.is_DBin(d), z3.If(D.op(d)==2, pO, pA), -1))
wp = z3.RecFunction('wp', D, B); wps = z3.RecFunction('wps', I, DL, B); oi = z3.Int('oi')
z3.RecAddDefinition(wp, [d], z3.If(D.is_DNeg(d), z3.And(wp(D.dn(d)), z3.Not(D.is_DBin(D.dn(d)))), z3.If(D.is_DGroup(d), wp(D.dg(d)), z3.If(D.is_DBin(d), wps(didx(d), D.dargs(d)), True))))
z3.RecAddDefinition(wps, [oi, ds], z3.If(DL.is_dnil(ds), True, z3.And(wp(DL.dhd(ds)), didx(DL.dhd(ds)) <= oi, z3.Implies(parenthesize, z3.Not(z3.Or(D.is_DBin(DL.dhd(ds)), D.is_DNeg(DL.dhd(ds))))), wps(oi, DL.dtl(ds)))))
def prove(name, hyps, goal, timeout=15000):
    s = z3.Solver(); s.set('timeout', timeout); s.add(perm, *hyps); s.add(z3.Not(goal)); t=time.time(); r=s.check()
    print(name, 'PROVED' if r==z3.unsat else r, round(time.time()-t,2), flush=True)
    if r==z3.sat:
        m=s.model(); print('    c=', m.eval(c), 'cs=', m.eval(cs), 'pN,pA,pO=', m.eval(pN), m.eval(pA), m.eval(pO), 'par=', m.eval(parenthesize), 'oi=', m.eval(oi))
