from sigma.types import *
from sigma.rule import SigmaRule, SigmaDetectionItem
from sigma.collection import SigmaCollection
from sigma.correlations import SigmaCorrelationRule
from sigma.filters import SigmaFilter
from sigma.backends.test import TextQueryTestBackend
import itertools, traceback

def rule(det, title="t", **kw):
    return {"title":title,"logsource":{"category":"c"},"detection":det, **kw}
def conv(docs, **kw):
    return TextQueryTestBackend(**kw).convert(SigmaCollection.from_dicts(docs))

print("C01 cased in in-list:", conv([rule({"s":{"f|cased":["a","b"]},"condition":"s"})]))
print("C01 cased in in-list:", conv([rule({"s":{"f":["a","b"]},"condition":"s"})]))
print("C01 cidr field quoting:", conv([rule({"s":{"f g|cidr":"10.0.0.0/8"},"condition":"s"})]))
print("C01 normal field quoting:", conv([rule({"s":{"f g":"x"},"condition":"s"})]))

print("C18 ipv6 /120:", SigmaCIDRExpression("2001:db8::/120").expand(), SigmaCIDRExpression("2001:db8::100/120").expand())
print("C18 ipv6 /64:", SigmaCIDRExpression("2001:db8:0:0::/64").expand(), SigmaCIDRExpression("2001:db8:1:2::/63").expand())
print("C18 ipv4 /0,/7,/8,/31,/32:", [SigmaCIDRExpression(c).expand() for c in ["0.0.0.0/0","10.0.0.0/7","10.0.0.0/8","10.0.0.0/31","10.0.0.1/32"]])

print("C17 regex placeholder:")
try:
    print(conv([rule({"s":{"f|re|expand":"a%x%b"},"condition":"s"})]))
except Exception as e: print("EXC", type(e).__name__, e)
try:
    print(conv([rule({"s":{"f|expand":"a%x%b"},"condition":"s"})]))
except Exception as e: print("EXC", type(e).__name__, e)

print("C09 ordering:")
docs = [rule({"s":{"f":"a"},"condition":"s"}, title="r1", name="r1"),
        rule({"s":{"f":"b"},"condition":"s"}, title="r2", name="r2"),
        {"title":"c1","name":"c1","correlation":{"type":"event_count","rules":["r1"],"timespan":"5m","group-by":["x"],"condition":{"gte":2}}},
        {"title":"c2","name":"c2","correlation":{"type":"temporal","rules":["c1","r2"],"timespan":"5m","group-by":["x"]}},
        rule({"s":{"f":"z"},"condition":"s"}, title="u", name="u")]
import copy
ok=fail=0; outs=set()
for perm in itertools.permutations(range(5)):
    try:
        out = conv([copy.deepcopy(docs[i]) for i in perm])
        outs.add(tuple(sorted(out))); ok+=1
    except Exception as e:
        fail+=1; last=(perm,type(e).__name__,str(e)[:80])
print(ok, fail, len(outs), last if fail else None)
