import z3, time
def prove(name, hyps, goal, timeout=20000):
    s = z3.Solver(); s.set('timeout', timeout)
    s.add(*hyps); s.add(z3.Not(goal)); t=time.time(); r=s.check()
    print(name, 'PROVED' if r==z3.unsat else r, round(time.time()-t,3), (s.model() if r==z3.sat else ''))
# --- C04: base64offset slice bounds == maximal payload-determined sextet window
L = z3.Int('L'); i = z3.Int('i')
n = i + L
enc_len = 4*((n+2)/3)            # len(b64encode(n bytes))  [assumed contract RFC4648]
r = n % 3
end_off = z3.If(r==0, 0, z3.If(r==1, -3, -2))   # end_offsets table read from real source: (None,-3,-2)
start = z3.If(i==0, 0, z3.If(i==1, 2, 3))       # start_offsets table (0,2,3)
end = enc_len + end_off
hy = [L>=0, i>=0, i<=2]
prove('C04 start == ceil(8i/6)', hy, start == (8*i+5)/6)
prove('C04 end == floor(8n/6)', hy, end == (8*n)/6)
# mutant: end_offsets (None,-2,-3)
end_off_m = z3.If(r==0, 0, z3.If(r==1, -2, -3))
prove('C04 mutant end', hy, enc_len+end_off_m == (8*n)/6)
# defect: L counted in chars, bytes B >= L
B = z3.Int('B'); nb = i + B; rc = (L+i)%3
end_c = 4*((nb+2)/3) + z3.If(rc==0, 0, z3.If(rc==1, -3, -2))
prove('C04 char-count defect (B bytes, L chars, L<=B<=4L)', [L>=0, B>=L, B<=4*L, i>=0, i<=2], end_c == (8*nb)/6)

# --- C18 IPv4: pattern set == network. network=(a,p), a multiple of 2^(32-p). Patterns: for subnets k in 0..2^d: prefix octets of (a + k*2^(32-p-d)) up to g=(p+d)/8 groups.
p = z3.Int('p'); a = z3.Int('a'); x = z3.Int('x'); k = z3.Int('k')
def pow2(e):  # e in 0..32 as ite-chain
    return z3.Sum([z3.If(e==j, 2**j, 0) for j in range(0,33)])
rem8 = p % 8; d = (8 - rem8) % 8; q = p + d; g = q / 8
size_net = pow2(32-p); size_sub = pow2(32-q)
hy = [p>=0, p<=32, a>=0, a < 2**32, a % size_net == 0, x>=0, x<2**32]
# address x is matched by pattern of subnet k  <=> top g octets equal  <=> x / 2^(32-8g) == (a + k*size_sub) / 2^(32-8g)
blk = pow2(32-8*g)
inn = z3.And(x >= a, x < a + size_net)
matched = z3.Exists([k], z3.And(k>=0, k < pow2(d), x/blk == (a + k*size_sub)/blk))
prove('C18 q is multiple of 8 and q<=32', hy, z3.And(q%8==0, q<=32, q>=p, q-p<8))
prove('C18 soundness: matched => in network', hy+[k>=0, k<pow2(d), x/blk == (a+k*size_sub)/blk], inn, 60000)
kk = (x - a)/size_sub
prove('C18 completeness: in network => matched by subnet (x-a)/size_sub', hy+[inn], z3.And(kk>=0, kk<pow2(d), x/blk == (a+kk*size_sub)/blk), 60000)
