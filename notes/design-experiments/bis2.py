import sys, z3, time
variant = sys.argv[1]
C = z3.Datatype('C'); CL = z3.Datatype('CL')
C.declare('Leaf', ('id', z3.IntSort())); C.declare('Nil'); C.declare('Not', ('narg', C)); C.declare('Or', ('oargs', CL))
CL.declare('cnil'); CL.declare('ccons', ('chd', C), ('ctl', CL))
C, CL = z3.CreateDatatypes(C, CL)
env = z3.Array('env', z3.IntSort(), z3.BoolSort())
sem = z3.RecFunction('sem', C, z3.IntSort()); semor = z3.RecFunction('semor', CL, z3.IntSort())
c = z3.Const('c', C); cs = z3.Const('cs', CL)
if variant == 'simple':   # no env, no nested ite helpers
    z3.RecAddDefinition(sem, [c], z3.If(C.is_Leaf(c), 1, z3.If(C.is_Nil(c), 2, z3.If(C.is_Not(c), 1 - sem(C.narg(c)), semor(C.oargs(c))))))
    z3.RecAddDefinition(semor, [cs], z3.If(CL.is_cnil(cs), 2, sem(CL.chd(cs)) + semor(CL.ctl(cs))))
elif variant == 'env':
    z3.RecAddDefinition(sem, [c], z3.If(C.is_Leaf(c), z3.If(env[C.id(c)],1,0), z3.If(C.is_Nil(c), 2, z3.If(C.is_Not(c), 1 - sem(C.narg(c)), semor(C.oargs(c))))))
    z3.RecAddDefinition(semor, [cs], z3.If(CL.is_cnil(cs), 2, sem(CL.chd(cs)) + semor(CL.ctl(cs))))
elif variant == 'dup':   # body mentions recursive call twice (as onot does)
    t = sem(C.narg(c))
    z3.RecAddDefinition(sem, [c], z3.If(C.is_Leaf(c), 1, z3.If(C.is_Nil(c), 2, z3.If(C.is_Not(c), z3.If(t==2, 2, 1-t), semor(C.oargs(c))))))
    a = sem(CL.chd(cs)); b = semor(CL.ctl(cs))
    z3.RecAddDefinition(semor, [cs], z3.If(CL.is_cnil(cs), 2, z3.If(a==2, b, z3.If(b==2, a, z3.If(z3.Or(a==1,b==1),1,0)))))
s = z3.Solver(); s.set('timeout', 10000)
q = z3.Const('q', C)
s.add(C.is_Leaf(q), z3.Not(z3.Or(sem(q)==0, sem(q)==1)))
t0=time.time(); print(variant, s.check(), round(time.time()-t0,2))
