#!/usr/bin/env python3
"""Regenerate MANIFEST.json from tools/manifest_src.py (keeps the file valid and the N/A list complete)."""
import json, os, sys
here = os.path.dirname(os.path.dirname(os.path.abspath(__file__)))
sys.path.insert(0, os.path.join(here, "tools"))
import manifest_src as S
props = [json.loads(l)["id"] for l in open(os.path.join(here, "properties.jsonl"))]
checks = []
for pid in props:
    if pid in S.CHECKS:
        c = S.CHECKS[pid]
        checks.append({
            "property_id": pid,
            "quick_cmd": f"./check {pid} --tier quick",
            "thorough_cmd": f"./check {pid} --tier thorough",
            "evidence_file": f"evidence/{pid}.json",
            "replay_cmd_template": f"./check {pid} --replay {{path}}",
            "engine": "pyvc",
            "level_claimed": {"category": c["level"], "text": c["text"], "design_ref": c.get("design_ref", "DESIGN.md section 10")},
            "level_note": c["note"],
            "technique": c["technique"],
        })
na = [{"property_id": pid, "reason": S.NOT_APPLICABLE.get(pid, "not yet under contract in this build; no check is claimed")} for pid in props if pid not in S.CHECKS]
m = {
    "version": 1,
    "setup_cmd": "./setup.sh",
    "hooks": {"guard": "SIGMAHQ_PYSIGMA_VERIF", "enable": "none needed: no repository file is instrumented; contracts are sidecar files under /verif/contracts and the verified text is re-read from /repo on every run",
              "baseline_off_cmd": "cd /repo && /venv/bin/python -m pytest -ra -q -p no:cacheprovider --timeout=900 --continue-on-collection-errors",
              "source_commits": [], "add_only": True},
    "engines": [{"name": "pyvc", "path": "pyvc/", "serves_properties": sorted(S.CHECKS), "kind_free_text": "home-built modular VC generator: symbolic execution of the ast of the real functions against sidecar contracts, obligations discharged by z3 5.1 (fall-back z3 4.8.12 / cvc5), counterexamples replayed natively"}],
    "checks": checks,
    "not_applicable": na,
    "notes": S.NOTES,
}
json.dump(m, open(os.path.join(here, "MANIFEST.json"), "w"), indent=1)
print("checks:", [c["property_id"] for c in checks], "n/a:", len(na))
