#!/bin/bash
# tools/collect_round.sh <round-prefix e.g. wt3> <first index e.g. 5>: copy finished sub-agent outputs into seeded/ and remove their worktrees
pre=$1; first=$2
for p in C01 C02 C03 C04 C05 C06 C07 C08 C09 C10 C11 C12 C13 C14 C15 C16 C17 C18 C19; do
  wt=/tmp/${pre}_$p
  [ -d $wt/_out/change1 ] && [ -d $wt/_out/change2 ] && [ -f $wt/_out/change2/meta.json ] || continue
  [ -z "$(git -C $wt status --short | grep -v _out)" ] || { echo "$p: worktree not restored yet"; continue; }
  for i in 1 2; do n=$((first+i-1)); mkdir -p /verif/seeded/$p-$n; cp $wt/_out/change$i/* /verif/seeded/$p-$n/; done
  git -C /repo worktree remove --force $wt && echo "collected $p"
done
