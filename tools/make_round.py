#!/usr/bin/env python3
"""tools/make_round.py <round number>: create one scratch worktree of /repo per property under /tmp/wt<N>_<id> and write the sub-agent prompt
/tmp/agent<N>_prompt_<id>.txt (template tools/agent_prompt.txt + the property text + one line per change produced in earlier rounds).
The prompt contains nothing from /verif except the property text and what earlier sub-agents produced."""
import json, glob, subprocess, sys, os
N = sys.argv[1]
V = os.path.dirname(os.path.dirname(os.path.abspath(__file__)))
tmpl = open(f"{V}/tools/agent_prompt.txt").read()
props = [json.loads(l) for l in open(f"{V}/properties.jsonl")]
for p in props:
    pid = p["id"]
    if pid == "C20":
        continue
    wt = f"/tmp/wt{N}_{pid}"
    if not os.path.exists(wt):
        subprocess.run(["git", "-C", "/repo", "worktree", "add", "-q", "--detach", wt, "HEAD"], check=True)
    text = f"Title: {p['title']}\n\nStatement: {p['statement']}\n\nQuantified over: {p['quantifier']['text']}\n\nWhy the existing tests cannot settle it: {p['why_tests_cant']}\n"
    prior = []
    for f in sorted(glob.glob(f"{V}/seeded/{pid}-*/meta.json")):
        m = json.load(open(f))
        prior.append(f"- ({', '.join(m.get('files', []))}) " + " ".join(m.get("summary", "").split())[:280])
    s = tmpl.replace("__WT__", wt).replace("__PROP__", text).replace("__ID__", pid)
    if prior:
        s += f"\n\n{len(prior)} changes for this property were already produced by others; do NOT repeat them or close variants of them - choose OTHER functions (ideally other files) and other aspects of the property. " \
             "Prefer changes whose trigger is rare: a specific combination of configuration and input, a multi-step history on the same objects, an interaction of two code sites that each look fine alone, " \
             "an edge of a data type (empty, zero, None, unicode, very large), a rarely used option or code path of the library that the property still covers, a subclass / inherited attribute, " \
             "an error path, an object that is shared where it used to be copied:\n" + "\n".join(prior) + "\n"
    open(f"/tmp/agent{N}_prompt_{pid}.txt", "w").write(s)
    print(pid, wt, len(prior))
