import json, os
_d = json.load(open(os.path.join(os.path.dirname(os.path.abspath(__file__)), "checks.json")))
CHECKS, NOT_APPLICABLE, NOTES = _d["checks"], _d["not_applicable"], _d["notes"]
