TECH = "contract-based deductive verification: VCs generated from the real ast, discharged by z3"
CHECKS = {
 "C04": {"level": "proof", "technique": TECH,
         "text": "base64 / base64offset modify() are proved, for every payload, to return exactly the payload-determined sextet window of RFC 4648 (lemmas: window maximal and inside payload bits, aligned occurrences share the sextets); rejecting only for wildcard payloads",
         "note": "assumed: RFC 4648 length/sextet layout of base64.b64encode; strict UTF-8/UTF-16 codecs; SigmaString.__len__/contains_special summaries; bounded stand-in (payloads <= 3/4 symbols) reported separately; known finding: utf16 BOM; pyvc encoding of Python semantics; z3"},
 "C13": {"level": "proof", "technique": TECH,
         "text": "the four gates of ProcessingItem (rule / detection item / field name / field-in-value) are proved equal to the specification gate for every condition list or expression, linking, negation flag and condition result (conditions abstract); ProcessingPipeline.apply is proved to re-create every per-rule tracking field before the first item runs",
         "note": "assumed: class invariant established by _check_conditions; built-in condition classes' own match() meaning and the pyparsing expression grammar are outside the proved part; pyvc encoding; z3"},
 "C14": {"level": "proof", "technique": TECH,
         "text": "ProcessingPipeline.__add__/__radd__ proved to be component-wise concatenation with right-biased vars and ownership hand-over; lemmas: associativity, identity, later-vars-win; resolver.resolve proved to fold + in (priority, name) order for every argument order (0..3 pipelines unrolled, priorities symbolic); Backend.init_processing_pipeline order and Backend.convert stage trace proved with abstract callees",
         "note": "assumed: sorted() stable/<-only; __post_init__/_clear_pipeline summaries; list length of resolve unrolled to <= 3 (stated bound); bounded stand-in (all permutations/bracketings of <= 3/4 real pipelines, one backend stage trace) reported separately"},
 "C16": {"level": "proof", "technique": TECH,
         "text": "capability provenance proved for every transformation / post-processing / finalizer type of the registries: the opt-in fields of constructed objects are the caller's arguments (object identity), never document values, through _instantiate_transformation, item from_dict, pipeline from_dict/from_yaml and the nested loaders; fetch and exec sites proved dominated by their gates (allow flag or documented env var; real path equal to or below realpath(base)+os.sep); effect-site INVENTORY over sigma/processing",
         "note": "assumed: os.path.realpath/dirname, os.environ, yaml.safe_load, Jinja2 are external; constructors abstract; one element per list (loops treat elements alike); document keys other than the opt-in keys represented by one generic key; bounded stand-in (injected real documents under an audit hook) reported separately"},
 "C18": {"level": "other", "technique": TECH + "; IPv6 clause: bounded enumeration (stand-in)",
         "text": "IPv4: SigmaCIDRExpression.expand proved (loop invariant) to return exactly [first prefixlen//8 octets + '.' + wildcard] per sub-network of network.subnets((8-p%8)%8); arithmetic lemmas for all 33 prefix lengths: sound, complete, irredundant on integer match sets; native-CIDR conversion proved to pass the normalised network values. IPv6: bounded only (129 prefix lengths x 10 addresses), with a recorded known finding",
         "note": "assumed: ipaddress contracts (subnets, prefixlen, dotted-quad rendering), pattern-matching semantics of 'o1.….og.*' on dotted quads; IPv6 branch not under contract (RFC 5952 rendering is outside the assumed library contracts) - bounded stand-in, never counted as proved"},
}
NOT_APPLICABLE = {
 "C20": "quantifies over interpreter processes, PYTHONHASHSEED values and draws of the random module for the whole load+convert output: no contract on a single call can express 'another process'; deciding it needs repeated subprocess execution, a different technique family (DESIGN.md section 11)",
}
NOTES = "See DESIGN.md. Exit codes of ./check: 0 held, 1 VIOLATION (replay file), 2 undecided (solver unknown / outside subset), 3 checker crash."
