#!/bin/bash
# usage: confirm_seed.sh <seeded dir>   -- confirms: patch applies, demo fails with / passes without, full test-suite unchanged
set -u
d=$(realpath "$1"); id=$(basename "$d"); wt=/tmp/confirm_$id
git -C /repo worktree add --detach "$wt" HEAD -q || exit 2
cd "$wt"
PYTHONPATH=$wt /venv/bin/python "$d/demo.py" >/dev/null 2>&1; base=$?
git apply "$d/patch.diff" || { echo "$id: patch does not apply"; git -C /repo worktree remove --force "$wt"; exit 2; }
PYTHONPATH=$wt /venv/bin/python "$d/demo.py" >/dev/null 2>&1; mut=$?
res=$(PYTHONPATH=$wt /venv/bin/python -m pytest -q -p no:cacheprovider --timeout=900 -x -q tests --deselect tests/test_validators_tags.py -k "not plugin and not external and not mitre" 2>&1 | tail -1)
cd /; git -C /repo worktree remove --force "$wt"
echo "$id: demo_unchanged_exit=$base demo_changed_exit=$mut tests: $res"
