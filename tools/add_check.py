#!/usr/bin/env python3
"""tools/add_check.py <id> <level> <technique-suffix> <text> <note>  -- add / replace a check entry and regenerate MANIFEST.json"""
import json, os, sys, subprocess
here = os.path.dirname(os.path.abspath(__file__))
p = os.path.join(here, "checks.json")
d = json.load(open(p))
pid, level, tech, text, note = sys.argv[1:6]
d["checks"][pid] = {"level": level, "technique": "contract-based deductive verification: VCs generated from the real ast, discharged by z3" + tech, "text": text, "note": note}
json.dump(d, open(p, "w"), indent=1)
subprocess.check_call([sys.executable, os.path.join(here, "gen_manifest.py")])
