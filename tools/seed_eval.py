#!/usr/bin/env python3
"""Confirm and evaluate seeded changes: tools/seed_eval.py [seed ids...]
For every /verif/seeded/<id>/: (1) in a scratch worktree of /repo HEAD: demo passes unchanged, patch applies, demo fails with it, full
test-suite has exactly the baseline failures; (2) apply to /repo itself, run ./check <property>, undo; record everything in meta.json."""
import json, os, subprocess, sys, re, shutil
V = "/verif"
BASE = set(l.strip() for l in open(f"{V}/tools/baseline_failures.txt") if l.strip())
FLAKY = ("test_mitre_attack_cached_data_used_without_url", "test_mitre_d3fend_cached_data_used_without_url")


def sh(cmd, **kw):
    return subprocess.run(cmd, shell=True, capture_output=True, text=True, **kw)


CHECK_ONLY = "--check-only" in sys.argv
if CHECK_ONLY:
    sys.argv.remove("--check-only")


def main(ids):
    for sid in ids:
        d = f"{V}/seeded/{sid}"
        meta = json.load(open(f"{d}/meta.json"))
        prop = meta.get("property") or sid.split("-")[0]
        wt = f"/tmp/confirm_{sid}"
        if meta.get("obsolete"):
            print(f"{sid}: obsolete ({str(meta['obsolete'])[:80]})")
            continue
        if CHECK_ONLY and meta.get("confirmed", {}).get("ok"):
            check_only(sid, d, meta, prop)
            continue
        sh(f"git -C /repo worktree remove --force {wt}")
        sh(f"git -C /repo worktree add --detach {wt} HEAD")
        env = dict(os.environ, PYTHONPATH=wt)
        r0 = subprocess.run(["/venv/bin/python", f"{d}/demo.py"], cwd=wt, env=env, capture_output=True, text=True).returncode
        ap = sh(f"git -C {wt} apply {d}/patch.diff")
        if ap.returncode != 0:
            print(sid, "PATCH DOES NOT APPLY", ap.stderr[:200])
            sh(f"git -C /repo worktree remove --force {wt}")
            continue
        r1 = subprocess.run(["/venv/bin/python", f"{d}/demo.py"], cwd=wt, env=env, capture_output=True, text=True).returncode
        t = subprocess.run("/venv/bin/python -m pytest -q -p no:cacheprovider --timeout=900 tests 2>&1 | grep -E '^(FAILED|ERROR)|passed|failed' | sed 's/ - .*//'", shell=True, cwd=wt, env=env, capture_output=True, text=True).stdout
        fails = set(l.strip() for l in t.splitlines() if l.startswith(("FAILED", "ERROR")))
        new = sorted(f for f in fails - BASE if not any(x in f for x in FLAKY))
        summary = (t.strip().splitlines() or [""])[-1]
        sh(f"git -C /repo worktree remove --force {wt}")
        meta["confirmed"] = {"demo_unchanged_exit": r0, "demo_changed_exit": r1, "suite": summary, "new_test_failures": new,
                             "ok": r0 == 0 and r1 != 0 and not new}
        check_only(sid, d, meta, prop)


def check_only(sid, d, meta, prop):
    if True:
        # run the check against /repo with the patch applied
        assert sh("git -C /repo status --porcelain").stdout.strip() == "", "/repo not clean"
        evf = f"{V}/evidence/{prop}.json"
        saved = open(evf).read() if os.path.exists(evf) else None
        ap = sh(f"git -C /repo apply {d}/patch.diff")
        if ap.returncode != 0:
            print(sid, "PATCH DOES NOT APPLY to the current tree (rebase it):", ap.stderr[:200])
            return
        try:
            c = sh(f"cd {V} && ./check {prop} --tier quick")
        finally:
            sh("git -C /repo checkout -- .")
            if saved is not None:
                open(evf, "w").write(saved)       # evidence must describe the unchanged tree
        viol = [l for l in c.stdout.splitlines() if l.startswith("VIOLATION")]
        obl = []
        for l in viol:
            m = re.search(r"replay=(\S+)", l)
            if m and os.path.exists(m.group(1)):
                try:
                    obl.append(json.load(open(m.group(1))).get("obligation"))
                except Exception:
                    pass
        meta.update({"check": {"cmd": f"./check {prop} --tier quick", "exit": c.returncode, "violations": len(viol), "obligations": sorted(set(o for o in obl if o))[:8],
                               "summary": (c.stdout.strip().splitlines() or [""])[-1]}})
        json.dump(meta, open(f"{d}/meta.json", "w"), indent=1)
        print(f"{sid}: confirmed={meta['confirmed']['ok']} check exit={c.returncode} violations={len(viol)} {sorted(set(o for o in obl if o))[:3]}")


def results():
    rows = []
    for sid in sorted(d for d in os.listdir(f"{V}/seeded") if os.path.isdir(f"{V}/seeded/{d}")):
        m = json.load(open(f"{V}/seeded/{sid}/meta.json"))
        ck, cf = m.get("check", {}), m.get("confirmed", {})
        obl = ck.get("obligations", [])
        kinds = {"bounded" if ".bounded." in o else "obligation" for o in obl}
        by = "+".join(sorted(kinds)) or "-"
        rows.append(f"| {sid} | {m.get('property') or sid.split('-')[0]} | {'yes' if cf.get('ok') else 'no' + (' (obsolete)' if m.get('obsolete') else '')} | {ck.get('exit')} | {ck.get('violations')} | {by} | "
                    f"{str(m.get('summary', '')).replace('|', '/').replace(chr(10), ' ')[:110]} | {'; '.join(o.replace('|', '/')[:180] for o in obl[:2])} |")
    head = open(f"{V}/seeded/RESULTS.md").read().split("| seed |")[0]
    open(f"{V}/seeded/RESULTS.md", "w").write(head + "| seed | prop | confirmed | exit | violations | caught by | change | first obligations |\n|---|---|---|---|---|---|---|---|\n" + "\n".join(rows) + "\n")


if "--results" in sys.argv:
    results()
else:
    main(sys.argv[1:] or sorted(d for d in os.listdir(f"{V}/seeded") if os.path.isdir(f"{V}/seeded/{d}")))
    results()
