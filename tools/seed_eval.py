#!/usr/bin/env python3
"""Confirm and evaluate seeded changes: tools/seed_eval.py [seed ids...]
For every /verif/seeded/<id>/: (1) in a scratch worktree of /repo HEAD: demo passes unchanged, patch applies, demo fails with it, full
test-suite has exactly the baseline failures; (2) apply to /repo itself, run ./check <property>, undo; record everything in meta.json."""
import json, os, subprocess, sys, re, shutil
V = "/verif"
BASE = set(l.strip() for l in open(f"{V}/tools/baseline_failures.txt") if l.strip())
FLAKY = ("test_mitre_attack_cached_data_used_without_url", "test_mitre_d3fend_cached_data_used_without_url")


def sh(cmd, **kw):
    return subprocess.run(cmd, shell=True, capture_output=True, text=True, **kw)


CHECK_ONLY = "--check-only" in sys.argv
if CHECK_ONLY:
    sys.argv.remove("--check-only")


def main(ids):
    for sid in ids:
        d = f"{V}/seeded/{sid}"
        meta = json.load(open(f"{d}/meta.json"))
        prop = meta.get("property") or sid.split("-")[0]
        wt = f"/tmp/confirm_{sid}"
        if CHECK_ONLY and meta.get("confirmed", {}).get("ok"):
            check_only(sid, d, meta, prop)
            continue
        sh(f"git -C /repo worktree remove --force {wt}")
        sh(f"git -C /repo worktree add --detach {wt} HEAD")
        env = dict(os.environ, PYTHONPATH=wt)
        r0 = subprocess.run(["/venv/bin/python", f"{d}/demo.py"], cwd=wt, env=env, capture_output=True, text=True).returncode
        ap = sh(f"git -C {wt} apply {d}/patch.diff")
        if ap.returncode != 0:
            print(sid, "PATCH DOES NOT APPLY", ap.stderr[:200])
            sh(f"git -C /repo worktree remove --force {wt}")
            continue
        r1 = subprocess.run(["/venv/bin/python", f"{d}/demo.py"], cwd=wt, env=env, capture_output=True, text=True).returncode
        t = subprocess.run("/venv/bin/python -m pytest -q -p no:cacheprovider --timeout=900 tests 2>&1 | grep -E '^(FAILED|ERROR)|passed|failed' | sed 's/ - .*//'", shell=True, cwd=wt, env=env, capture_output=True, text=True).stdout
        fails = set(l.strip() for l in t.splitlines() if l.startswith(("FAILED", "ERROR")))
        new = sorted(f for f in fails - BASE if not any(x in f for x in FLAKY))
        summary = (t.strip().splitlines() or [""])[-1]
        sh(f"git -C /repo worktree remove --force {wt}")
        meta["confirmed"] = {"demo_unchanged_exit": r0, "demo_changed_exit": r1, "suite": summary, "new_test_failures": new,
                             "ok": r0 == 0 and r1 != 0 and not new}
        check_only(sid, d, meta, prop)


def check_only(sid, d, meta, prop):
    if True:
        # run the check against /repo with the patch applied
        assert sh("git -C /repo status --porcelain").stdout.strip() == "", "/repo not clean"
        evf = f"{V}/evidence/{prop}.json"
        saved = open(evf).read() if os.path.exists(evf) else None
        sh(f"git -C /repo apply {d}/patch.diff")
        try:
            c = sh(f"cd {V} && ./check {prop} --tier quick")
        finally:
            sh("git -C /repo checkout -- .")
            if saved is not None:
                open(evf, "w").write(saved)       # evidence must describe the unchanged tree
        viol = [l for l in c.stdout.splitlines() if l.startswith("VIOLATION")]
        obl = []
        for l in viol:
            m = re.search(r"replay=(\S+)", l)
            if m and os.path.exists(m.group(1)):
                try:
                    obl.append(json.load(open(m.group(1))).get("obligation"))
                except Exception:
                    pass
        meta.update({"check": {"cmd": f"./check {prop} --tier quick", "exit": c.returncode, "violations": len(viol), "obligations": sorted(set(o for o in obl if o))[:8],
                               "summary": (c.stdout.strip().splitlines() or [""])[-1]}})
        json.dump(meta, open(f"{d}/meta.json", "w"), indent=1)
        print(f"{sid}: confirmed={meta['confirmed']['ok']} check exit={c.returncode} violations={len(viol)} {sorted(set(o for o in obl if o))[:3]}")


main(sys.argv[1:] or sorted(os.listdir(f"{V}/seeded")))
