#!/usr/bin/env python3
"""tools/coverage.py: which functions of /repo/sigma are under contract (targets of registered contracts), per file"""
import ast, os, sys, importlib, glob
sys.path[:0] = ["/verif", "/verif/.deps"]
from pyvc import api
for f in sorted(glob.glob("/verif/contracts/c*.py")):
    importlib.import_module("contracts." + os.path.basename(f)[:-3])
targets = set()
for c in api.REGISTRY["contracts"]:
    t = getattr(c, "target", None)
    if t:
        targets.add(t)
rows = []
for dp, dn, fn in os.walk("/repo/sigma"):
    for f in sorted(fn):
        if not f.endswith(".py"):
            continue
        path = os.path.join(dp, f)
        mod = os.path.relpath(path, "/repo")[:-3].replace("/", ".")
        if mod.endswith(".__init__"):
            mod = mod[:-9]
        tree = ast.parse(open(path).read())
        funcs = []
        for node in tree.body:
            if isinstance(node, (ast.FunctionDef,)):
                funcs.append((node.name, node))
            elif isinstance(node, ast.ClassDef):
                for st in node.body:
                    if isinstance(st, ast.FunctionDef):
                        funcs.append((f"{node.name}.{st.name}", st))
        cov = [n for n, _ in funcs if f"{mod}:{n}" in targets]
        unc = [(n, (nd.end_lineno - nd.lineno)) for n, nd in funcs if f"{mod}:{n}" not in targets]
        rows.append((mod, len(funcs), len(cov), unc))
tot = sum(r[1] for r in rows); c = sum(r[2] for r in rows)
print(f"{c} of {tot} functions / methods under contract ({len(targets)} distinct targets)")
for mod, n, k, unc in rows:
    if n:
        big = [f"{a}({l})" for a, l in sorted(unc, key=lambda x: -x[1]) if l >= 4][:14]
        print(f"{mod}: {k}/{n}   not under contract (by size): {', '.join(big)}")
